#include "alloc_seam.h"
#include <atomic>
#include <cstdlib>
#include <cstring>
#include <new>

#if defined(__SANITIZE_ADDRESS__)
#include <sanitizer/asan_interface.h>
#define SIM_POISON(p, n) ASAN_POISON_MEMORY_REGION(p, n)
#define SIM_UNPOISON(p, n) ASAN_UNPOISON_MEMORY_REGION(p, n)
#else
#define SIM_POISON(p, n) ((void)0)
#define SIM_UNPOISON(p, n) ((void)0)
#endif

namespace
{
const uint32_t MAGIC = 0x51A110C8u;
const size_t HDR = 16;
const size_t NCLASS = 128;     // 16, 32, ... 2048 bytes
const size_t MAXCACHE = 2048;  // cached blocks per class

struct Header {
    uint32_t magic;
    uint32_t cls; // size class index, or 0xffffffff for large blocks
    uint64_t size;
};
static_assert(sizeof(Header) == HDR, "header size");

struct Ring { // FIFO/LIFO container on malloc, never on operator new
    void **buf;
    size_t cap, head, n;
};

struct State {
    std::atomic_flag lock = ATOMIC_FLAG_INIT;
    simalloc::Policy policy = simalloc::SYSTEM;
    uint64_t rng = 0x9e3779b97f4a7c15ULL;
    size_t single_cap = (size_t)-1, total_cap = (size_t)-1;
    uint64_t fail_countdown = 0;
    simalloc::Stats st;
    Ring rings[NCLASS];
};
State &S()
{
    static State s;
    return s;
}
struct Guard {
    Guard()
    {
        while (S().lock.test_and_set(std::memory_order_acquire)) {
        }
    }
    ~Guard()
    {
        S().lock.clear(std::memory_order_release);
    }
};

uint64_t next_rand()
{
    uint64_t &x = S().rng;
    x ^= x << 13;
    x ^= x >> 7;
    x ^= x << 17;
    return x;
}

void ring_push(Ring &r, void *p)
{
    if (r.n == r.cap) {
        size_t ncap = r.cap ? r.cap * 2 : 64;
        void **nb = (void **)malloc(ncap * sizeof(void *));
        for (size_t i = 0; i < r.n; i++)
            nb[i] = r.buf[(r.head + i) % r.cap];
        free(r.buf);
        r.buf = nb;
        r.cap = ncap;
        r.head = 0;
    }
    r.buf[(r.head + r.n) % r.cap] = p;
    r.n++;
}
void *ring_pop_back(Ring &r)
{
    r.n--;
    return r.buf[(r.head + r.n) % r.cap];
}
void *ring_pop_front(Ring &r)
{
    void *p = r.buf[r.head];
    r.head = (r.head + 1) % r.cap;
    r.n--;
    return p;
}
void *ring_take(Ring &r, size_t i)
{
    size_t a = (r.head + i) % r.cap, b = (r.head + r.n - 1) % r.cap;
    void *p = r.buf[a];
    r.buf[a] = r.buf[b];
    r.n--;
    return p;
}

void *sim_alloc(size_t n)
{
    State &s = S();
    Guard g;
    if (s.fail_countdown && --s.fail_countdown == 0) {
        s.st.injected_failures++;
        return nullptr;
    }
    if (n > s.single_cap
        || (s.total_cap != (size_t)-1
            && (size_t)(s.st.live_bytes < 0 ? 0 : s.st.live_bytes) + n
                   > s.total_cap)) {
        s.st.budget_failures++;
        return nullptr;
    }
    size_t cls = n == 0 ? 0 : (n - 1) / 16;
    char *base = nullptr;
    if (cls < NCLASS) {
        size_t csize = (cls + 1) * 16;
        Ring &r = s.rings[cls];
        if (r.n > 0) {
            switch (s.policy) {
                case simalloc::LIFO:
                    base = (char *)ring_pop_back(r);
                    break;
                case simalloc::FIFO:
                    if (r.n >= 8)
                        base = (char *)ring_pop_front(r);
                    break;
                case simalloc::RANDOM:
                    if (next_rand() & 1)
                        base = (char *)ring_take(r, next_rand() % r.n);
                    break;
                default:
                    break;
            }
        }
        if (base) {
            SIM_UNPOISON(base, HDR + csize);
            s.st.reuses++;
        } else {
            base = (char *)malloc(HDR + csize);
            if (!base)
                return nullptr;
        }
        Header *h = (Header *)base;
        h->magic = MAGIC;
        h->cls = (uint32_t)cls;
        h->size = n;
    } else {
        base = (char *)malloc(HDR + n);
        if (!base)
            return nullptr;
        Header *h = (Header *)base;
        h->magic = MAGIC;
        h->cls = 0xffffffffu;
        h->size = n;
    }
    s.st.allocs++;
    s.st.live_blocks++;
    s.st.live_bytes += (int64_t)n;
    return base + HDR;
}

void sim_free(void *p)
{
    if (!p)
        return;
    char *base = (char *)p - HDR;
    Header *h = (Header *)base;
    if (h->magic != MAGIC) { // not ours (should not happen): hand to free
        free(p);
        return;
    }
    State &s = S();
    Guard g;
    s.st.frees++;
    s.st.live_blocks--;
    s.st.live_bytes -= (int64_t)h->size;
    uint32_t cls = h->cls;
    if (cls < NCLASS && s.policy != simalloc::SYSTEM
        && s.rings[cls].n < MAXCACHE) {
        size_t csize = (cls + 1) * 16;
        h->magic = 0;
        ring_push(s.rings[cls], base);
        SIM_POISON(base, HDR + csize);
        return;
    }
    h->magic = 0;
    free(base);
}
} // namespace

namespace simalloc
{
void configure(Policy p, uint64_t seed, size_t single_cap, size_t total_cap)
{
    deactivate();
    Guard g;
    S().policy = p;
    S().rng = seed | 1;
    S().single_cap = single_cap;
    S().total_cap = total_cap;
}
void fail_after(uint64_t n)
{
    Guard g;
    S().fail_countdown = n;
}
void deactivate()
{
    Guard g;
    State &s = S();
    s.policy = SYSTEM;
    s.single_cap = (size_t)-1;
    s.total_cap = (size_t)-1;
    s.fail_countdown = 0;
    for (size_t c = 0; c < NCLASS; c++) {
        Ring &r = s.rings[c];
        while (r.n > 0) {
            char *base = (char *)ring_pop_back(r);
            SIM_UNPOISON(base, HDR + (c + 1) * 16);
            free(base);
        }
    }
}
Stats stats()
{
    Guard g;
    return S().st;
}
void reset_counters()
{
    Guard g;
    Stats &st = S().st;
    st.allocs = st.frees = st.reuses = st.budget_failures = st.injected_failures
        = 0;
}
const char *policy_name(Policy p)
{
    static const char *n[] = {"system", "lifo", "fifo", "random"};
    return n[p & 3];
}
} // namespace simalloc

void *operator new(size_t n)
{
    void *p = sim_alloc(n);
    if (!p)
        throw std::bad_alloc();
    return p;
}
void *operator new[](size_t n)
{
    void *p = sim_alloc(n);
    if (!p)
        throw std::bad_alloc();
    return p;
}
void *operator new(size_t n, const std::nothrow_t &) noexcept
{
    return sim_alloc(n);
}
void *operator new[](size_t n, const std::nothrow_t &) noexcept
{
    return sim_alloc(n);
}
void operator delete(void *p) noexcept
{
    sim_free(p);
}
void operator delete[](void *p) noexcept
{
    sim_free(p);
}
void operator delete(void *p, size_t) noexcept
{
    sim_free(p);
}
void operator delete[](void *p, size_t) noexcept
{
    sim_free(p);
}
void operator delete(void *p, const std::nothrow_t &) noexcept
{
    sim_free(p);
}
void operator delete[](void *p, const std::nothrow_t &) noexcept
{
    sim_free(p);
}
