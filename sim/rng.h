// Seeded PRNG for the simulator: one integer decides everything.
// splitmix64 for seed derivation, xoshiro256** for streams.
#pragma once
#include <cstdint>
#include <cstddef>
#include <vector>

namespace sim
{

inline uint64_t splitmix64(uint64_t &x)
{
    uint64_t z = (x += 0x9e3779b97f4a7c15ULL);
    z = (z ^ (z >> 30)) * 0xbf58476d1ce4e5b9ULL;
    z = (z ^ (z >> 27)) * 0x94d049bb133111ebULL;
    return z ^ (z >> 31);
}

// seed(c, r): independent of the number of workers
inline uint64_t derive_seed(uint64_t verif_seed, uint64_t check_tag,
                            uint64_t run)
{
    uint64_t x = verif_seed;
    uint64_t a = splitmix64(x);
    x = a ^ (check_tag * 0xd6e8feb86659fd93ULL);
    uint64_t b = splitmix64(x);
    x = b ^ (run * 0xa0761d6478bd642fULL + 0xe7037ed1a0b428dbULL);
    return splitmix64(x);
}

class Rng
{
    uint64_t s[4];
    static inline uint64_t rotl(uint64_t x, int k)
    {
        return (x << k) | (x >> (64 - k));
    }

public:
    explicit Rng(uint64_t seed = 1)
    {
        reseed(seed);
    }
    void reseed(uint64_t seed)
    {
        uint64_t x = seed;
        for (int i = 0; i < 4; i++)
            s[i] = splitmix64(x);
    }
    uint64_t next()
    {
        const uint64_t result = rotl(s[1] * 5, 7) * 9;
        const uint64_t t = s[1] << 17;
        s[2] ^= s[0];
        s[3] ^= s[1];
        s[1] ^= s[2];
        s[0] ^= s[3];
        s[2] ^= t;
        s[3] = rotl(s[3], 45);
        return result;
    }
    // uniform in [0, n)  (n > 0)
    uint64_t below(uint64_t n)
    {
        return n <= 1 ? 0 : next() % n;
    }
    // uniform in [lo, hi]
    int64_t range(int64_t lo, int64_t hi)
    {
        if (hi <= lo)
            return lo;
        return lo + (int64_t)below((uint64_t)(hi - lo) + 1);
    }
    bool chance(unsigned num, unsigned den)
    {
        return below(den) < num;
    }
    double unit()
    {
        return (next() >> 11) * (1.0 / 9007199254740992.0);
    }
    template <class T>
    const T &pick(const std::vector<T> &v)
    {
        return v[below(v.size())];
    }
    // weighted choice: returns index
    size_t weighted(const std::vector<unsigned> &w)
    {
        uint64_t tot = 0;
        for (auto x : w)
            tot += x;
        if (tot == 0)
            return 0;
        uint64_t r = below(tot);
        for (size_t i = 0; i < w.size(); i++) {
            if (r < w[i])
                return i;
            r -= w[i];
        }
        return w.size() - 1;
    }
    Rng fork()
    {
        return Rng(next());
    }
};

inline uint64_t fnv1a(const void *data, size_t n,
                      uint64_t h = 1469598103934665603ULL)
{
    const unsigned char *p = (const unsigned char *)data;
    for (size_t i = 0; i < n; i++) {
        h ^= p[i];
        h *= 1099511628211ULL;
    }
    return h;
}

} // namespace sim
