// Byte-stream seam for the serialization checks: an output streambuf that
// records every write boundary (= field boundary of the portable binary
// archive), and an input streambuf that serves stored bytes in seed-chosen
// short reads.
#pragma once
#include "rng.h"
#include <streambuf>
#include <string>
#include <vector>
#include <cstring>

namespace simio
{

class RecordingBuf : public std::streambuf
{
public:
    std::string data;
    std::vector<std::pair<size_t, size_t>> fields; // (offset, length)
protected:
    std::streamsize xsputn(const char *s, std::streamsize n) override
    {
        fields.emplace_back(data.size(), (size_t)n);
        data.append(s, (size_t)n);
        return n;
    }
    int_type overflow(int_type c) override
    {
        if (c != traits_type::eof()) {
            fields.emplace_back(data.size(), 1);
            data.push_back((char)c);
        }
        return c;
    }
};

class ShortReadBuf : public std::streambuf
{
    std::string data_;
    size_t pos_ = 0;
    sim::Rng rng_;
    unsigned maxchunk_;
    char buf_[64];

public:
    uint64_t refills = 0;
    ShortReadBuf(const std::string &d, uint64_t seed, unsigned maxchunk)
        : data_(d), rng_(seed), maxchunk_(maxchunk < 1 ? 1 : (maxchunk > 64 ? 64 : maxchunk))
    {
        setg(buf_, buf_, buf_);
    }

protected:
    int_type underflow() override
    {
        if (gptr() < egptr())
            return traits_type::to_int_type(*gptr());
        if (pos_ >= data_.size())
            return traits_type::eof();
        size_t n = 1 + (size_t)rng_.below(maxchunk_);
        if (n > data_.size() - pos_)
            n = data_.size() - pos_;
        memcpy(buf_, data_.data() + pos_, n);
        pos_ += n;
        refills++;
        setg(buf_, buf_, buf_ + n);
        return traits_type::to_int_type(*gptr());
    }
};

} // namespace simio
