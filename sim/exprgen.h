// Expression recipes: plans carry expressions as explicit JSON recipes
// (["add", r1, r2], ["sin", r], ["sym", 0], ["ref", k] ...) so that a replay
// file does not depend on the generator, and sub-plans stay valid. "ref"
// points to an earlier entry of the run's expression pool (modulo its size):
// that is how shared sub-objects (same RCP in several places) are produced.
#pragma once
#include "json.h"
#include "rng.h"
#include <symengine/basic.h>
#include <symengine/add.h>
#include <symengine/mul.h>
#include <symengine/pow.h>
#include <symengine/integer.h>
#include <symengine/rational.h>
#include <symengine/complex.h>
#include <symengine/real_double.h>
#include <symengine/complex_double.h>
#include <symengine/constants.h>
#include <symengine/functions.h>
#include <symengine/infinity.h>
#include <symengine/nan.h>
#include <symengine/logic.h>
#include <symengine/sets.h>
#include <symengine/symbol.h>
#include <symengine/derivative.h>
#include <symengine/subs.h>
#include <symengine/eval_double.h>
#include <cmath>
#include <symengine/ntheory_funcs.h>
#include <symengine/polys/uratpoly.h>
#include <symengine/polys/uintpoly.h>
#include <symengine/symengine_exception.h>
#include <cstring>
#include <functional>
#include <map>

namespace simx
{
using sim::Json;
using sim::Rng;
using namespace SymEngine;

typedef std::vector<RCP<const Basic>> Pool;

struct BuildError : std::runtime_error {
    using std::runtime_error::runtime_error;
};

inline RCP<const Symbol> sym_n(int64_t i)
{
    static const char *names[] = {"x", "y", "z", "t", "u", "v", "w", "s"};
    return symbol(names[((i % 8) + 8) % 8]);
}

inline RCP<const Boolean> as_bool(const RCP<const Basic> &b)
{
    if (!is_a_Boolean(*b))
        throw BuildError("not a boolean");
    return rcp_static_cast<const Boolean>(b);
}
inline RCP<const Set> as_set(const RCP<const Basic> &b)
{
    if (!is_a_Set(*b))
        throw BuildError("not a set");
    return rcp_static_cast<const Set>(b);
}
inline RCP<const Number> as_num(const RCP<const Basic> &b)
{
    if (!is_a_Number(*b))
        throw BuildError("not a number");
    return rcp_static_cast<const Number>(b);
}

typedef RCP<const Basic> (*Fn1)(const RCP<const Basic> &);
typedef RCP<const Basic> (*Fn2)(const RCP<const Basic> &,
                                const RCP<const Basic> &);

inline const std::map<std::string, Fn1> &unary_table()
{
    static const std::map<std::string, Fn1> t = {
        {"sin", sin},       {"cos", cos},         {"tan", tan},
        {"cot", cot},       {"csc", csc},         {"sec", sec},
        {"asin", asin},     {"acos", acos},       {"asec", asec},
        {"acsc", acsc},     {"atan", atan},       {"acot", acot},
        {"sinh", sinh},     {"csch", csch},       {"cosh", cosh},
        {"sech", sech},     {"tanh", tanh},       {"coth", coth},
        {"asinh", asinh},   {"acsch", acsch},     {"acosh", acosh},
        {"atanh", atanh},   {"acoth", acoth},     {"asech", asech},
        {"log", log},       {"exp", exp},         {"abs", abs},
        {"sign", sign},     {"floor", floor},     {"ceiling", ceiling},
        {"truncate", truncate}, {"conjugate", conjugate}, {"gamma", gamma},
        {"loggamma", loggamma}, {"erf", erf},     {"erfc", erfc},
        {"lambertw", lambertw}, {"zeta", zeta},   {"dirichlet_eta", dirichlet_eta},
        {"digamma", digamma}, {"trigamma", trigamma}, {"sqrt", sqrt},
        {"cbrt", cbrt},     {"neg", neg},         {"unevaluated", unevaluated_expr},
        {"primepi", primepi}, {"primorial", primorial},
    };
    return t;
}
inline RCP<const Basic> rel_eq(const RCP<const Basic> &a, const RCP<const Basic> &b) { return Eq(a, b); }
inline RCP<const Basic> rel_ne(const RCP<const Basic> &a, const RCP<const Basic> &b) { return Ne(a, b); }
inline RCP<const Basic> rel_lt(const RCP<const Basic> &a, const RCP<const Basic> &b) { return Lt(a, b); }
inline RCP<const Basic> rel_le(const RCP<const Basic> &a, const RCP<const Basic> &b) { return Le(a, b); }
inline RCP<const Basic> rel_gt(const RCP<const Basic> &a, const RCP<const Basic> &b) { return Gt(a, b); }
inline RCP<const Basic> rel_ge(const RCP<const Basic> &a, const RCP<const Basic> &b) { return Ge(a, b); }
inline RCP<const Basic> zeta2(const RCP<const Basic> &a, const RCP<const Basic> &b) { return zeta(a, b); }
inline RCP<const Basic> log2f(const RCP<const Basic> &a, const RCP<const Basic> &b) { return log(a, b); }

inline const std::map<std::string, Fn2> &binary_table()
{
    static const std::map<std::string, Fn2> t = {
        {"pow", pow},       {"sub", sub},         {"div", div},
        {"atan2", atan2},   {"eq", rel_eq},       {"ne", rel_ne},
        {"lt", rel_lt},     {"le", rel_le},       {"gt", rel_gt},
        {"ge", rel_ge},     {"beta", beta},       {"lowergamma", lowergamma},
        {"uppergamma", uppergamma}, {"polygamma", polygamma},
        {"kronecker_delta", kronecker_delta}, {"zeta2", zeta2}, {"logb", log2f},
    };
    return t;
}

inline bool contains_kind(const Basic &b, std::initializer_list<TypeID> kinds, int depth = 0)
{
    for (auto k : kinds)
        if (b.get_type_code() == k)
            return true;
    if (depth > 100)
        return true;
    for (auto &a : b.get_args())
        if (contains_kind(*a, kinds, depth + 1))
            return true;
    return false;
}
inline bool contains_zoo(const Basic &b, int depth = 0)
{
    if (eq(b, *ComplexInf))
        return true;
    if (depth > 100)
        return true;
    for (auto &a : b.get_args())
        if (contains_zoo(*a, depth + 1))
            return true;
    return false;
}

// Build an expression from a recipe. Domain errors of constructors surface
// as SymEngineException / BuildError; callers treat a recipe that cannot be
// built as "skip" (never as a violation).
inline RCP<const Basic> build(const Json &r, const Pool &pool, int depth = 0)
{
    if (depth > 64)
        throw BuildError("recipe too deep");
    if (r.type == Json::Int)
        return integer((long)r.i);
    if (r.type == Json::Double)
        return real_double(r.d);
    if (r.type != Json::Array || r.size() == 0 || r[0].type != Json::String)
        throw BuildError("malformed recipe");
    const std::string &op = r[0].s;
    auto arg = [&](size_t k) -> RCP<const Basic> {
        if (k >= r.size())
            throw BuildError("missing argument");
        return build(r[k], pool, depth + 1);
    };
    auto args_from = [&](size_t k) {
        vec_basic v;
        for (; k < r.size(); k++)
            v.push_back(build(r[k], pool, depth + 1));
        return v;
    };
    auto geti = [&](size_t k, int64_t def = 0) -> int64_t {
        return k < r.size() ? r[k].as_int(def) : def;
    };
    if (op == "ref") {
        if (pool.empty())
            return sym_n(geti(1));
        return pool[(size_t)(((geti(1) % (int64_t)pool.size()) + (int64_t)pool.size()) % (int64_t)pool.size())];
    }
    if (op == "sym")
        return sym_n(geti(1));
    if (op == "symn")
        return symbol(r.size() > 1 ? r[1].s : std::string("q"));
    if (op == "dummy") // fixed index: reproducible across processes
        return dummy(r.size() > 2 ? r[2].s : std::string("d"),
                     (size_t)(1000000 + geti(1) % 1000));
    if (op == "int")
        return integer((long)geti(1));
    if (op == "bigint") { // ["bigint", "123456...."]
        if (r.size() < 2 || r[1].s.empty())
            throw BuildError("bigint");
        return integer(integer_class(r[1].s));
    }
    if (op == "uintpoly") { // ["uintpoly", symindex, c0, c1, ...] (not serialisable)
        std::vector<integer_class> v;
        for (size_t k = 2; k < r.size() && v.size() < 12; k++)
            v.push_back(integer_class((long)geti(k)));
        return UIntPoly::from_vec(sym_n(geti(1)), v);
    }
    if (op == "uratpoly") { // ["uratpoly", symindex, n0, d0, n1, d1, ...]: sum (n_i/d_i) x^i
        std::vector<rational_class> v;
        for (size_t k = 2; k + 1 < r.size() && v.size() < 12; k += 2) {
            int64_t d = geti(k + 1, 1);
            if (d == 0)
                d = 1;
            rational_class q(integer_class((long)geti(k)), integer_class((long)d));
            canonicalize(q);
            v.push_back(q);
        }
        return URatPoly::from_vec(sym_n(geti(1)), v);
    }
    if (op == "rat") {
        int64_t q = geti(2, 1);
        if (q == 0)
            q = 1;
        return Rational::from_two_ints(*integer((long)geti(1)), *integer((long)q));
    }
    if (op == "real")
        return real_double(r.size() > 1 ? r[1].as_double() : 0.0);
    if (op == "realbits") { // exact bit pattern, hex string
        uint64_t bits = strtoull(r.size() > 1 ? r[1].s.c_str() : "0", nullptr, 16);
        double d;
        memcpy(&d, &bits, sizeof d);
        // the object is built directly: a factory that normalises its
        // argument must not stand between the bit pattern and the node
        return make_rcp<const RealDouble>(d);
    }
    if (op == "cdblbits") { // ["cdblbits", hexre, hexim]
        uint64_t b1 = strtoull(r.size() > 1 ? r[1].s.c_str() : "0", nullptr, 16);
        uint64_t b2 = strtoull(r.size() > 2 ? r[2].s.c_str() : "3ff0000000000000", nullptr, 16);
        double re, im;
        memcpy(&re, &b1, sizeof re);
        memcpy(&im, &b2, sizeof im);
        return make_rcp<const ComplexDouble>(std::complex<double>(re, im));
    }
    if (op == "twins") { // ["twins", kind, k]: two values that agree in everything a hash reads
        int64_t k = geti(2);
        integer_class big(1);
        big = big << 64;
        big = big + integer_class((long)k);
        RCP<const Basic> a = integer((long)k), b = integer(big), x = sym_n(geti(3));
        switch (geti(1) % 4) {
            case 0:
                return finiteset({a, b, x});
            case 1:
                return mul(pow(a, x), pow(b, x));
            case 2: {
                set_boolean sb;
                sb.insert(Lt(x, a));
                sb.insert(Lt(x, b));
                sb.insert(Gt(x, integer(-1000)));
                return geti(4) % 2 ? (RCP<const Basic>)logical_and(sb) : (RCP<const Basic>)logical_or(sb);
            }
            default:
                return function_symbol("h", {add(a, x), add(b, x), b, a});
        }
    }
    if (op == "cplx") {
        int64_t q1 = geti(2, 1), q2 = geti(4, 1);
        if (q1 == 0)
            q1 = 1;
        if (q2 == 0)
            q2 = 1;
        return Complex::from_two_nums(
            *Rational::from_two_ints(*integer((long)geti(1)), *integer((long)q1)),
            *Rational::from_two_ints(*integer((long)geti(3)), *integer((long)q2)));
    }
    if (op == "cdbl")
        return complex_double(r.size() > 1 ? r[1].as_double() : 0.0,
                              r.size() > 2 ? r[2].as_double() : 1.0);
    if (op == "newconst") // a Constant object of its own, not the library's singleton
        return constant(r.size() > 1 && !r[1].s.empty() ? r[1].s : std::string("pi"));
    if (op == "const") {
        std::string n = r.size() > 1 ? r[1].s : "pi";
        if (n == "pi")
            return pi;
        if (n == "E")
            return E;
        if (n == "EulerGamma")
            return EulerGamma;
        if (n == "Catalan")
            return Catalan;
        if (n == "GoldenRatio")
            return GoldenRatio;
        if (n == "I")
            return I;
        return constant(n);
    }
    if (op == "inf") {
        int64_t s = geti(1, 1);
        return s > 0 ? Inf : (s < 0 ? NegInf : ComplexInf);
    }
    if (op == "nan")
        return Nan;
    if (op == "bool")
        return boolean(geti(1) != 0);
    if (op == "add")
        return add(args_from(1));
    if (op == "mul")
        return mul(args_from(1));
    if (op == "max")
        return max(args_from(1));
    if (op == "min")
        return min(args_from(1));
    if (op == "levi_civita")
        return levi_civita(args_from(1));
    if (op == "and" || op == "or" || op == "nand" || op == "nor") {
        set_boolean s;
        for (size_t k = 1; k < r.size(); k++)
            s.insert(as_bool(arg(k)));
        if (s.empty())
            throw BuildError("empty boolean op");
        if (op == "and")
            return logical_and(s);
        if (op == "or")
            return logical_or(s);
        if (op == "nand")
            return logical_nand(s);
        return logical_nor(s);
    }
    if (op == "xor" || op == "xnor") {
        vec_boolean s;
        for (size_t k = 1; k < r.size(); k++)
            s.push_back(as_bool(arg(k)));
        if (s.empty())
            throw BuildError("empty boolean op");
        return op == "xor" ? logical_xor(s) : logical_xnor(s);
    }
    if (op == "not")
        return logical_not(as_bool(arg(1)));
    if (op == "piecewise") { // ["piecewise", e1, c1, e2, c2, ..., elast] (last: True)
        PiecewiseVec v;
        size_t k = 1;
        for (; k + 1 < r.size(); k += 2)
            v.push_back({arg(k), as_bool(arg(k + 1))});
        if (k < r.size())
            v.push_back({arg(k), boolTrue});
        if (v.empty())
            throw BuildError("empty piecewise");
        return piecewise(v);
    }
    if (op == "interval") { // ["interval", a, b, left_open, right_open]
        return interval(as_num(arg(1)), as_num(arg(2)), geti(3) != 0,
                        geti(4) != 0);
    }
    if (op == "contains")
        return contains(arg(1), as_set(arg(2)));
    if (op == "finiteset") {
        set_basic s;
        for (size_t k = 1; k < r.size(); k++)
            s.insert(arg(k));
        return finiteset(s);
    }
    if (op == "union" || op == "intersection") {
        set_set s;
        for (size_t k = 1; k < r.size(); k++)
            s.insert(as_set(arg(k)));
        return op == "union" ? set_union(s) : set_intersection(s);
    }
    if (op == "complement")
        return set_complement(as_set(arg(1)), as_set(arg(2)));
    if (op == "imageset")
        return imageset(sym_n(geti(1)), arg(2), as_set(arg(3)));
    if (op == "conditionset")
        return conditionset(sym_n(geti(1)), as_bool(arg(2)));
    if (op == "set") {
        std::string n = r.size() > 1 ? r[1].s : "reals";
        if (n == "reals")
            return reals();
        if (n == "rationals")
            return rationals();
        if (n == "integers")
            return integers();
        if (n == "naturals")
            return naturals();
        if (n == "naturals0")
            return naturals0();
        if (n == "complexes")
            return complexes();
        if (n == "empty")
            return emptyset();
        return universalset();
    }
    if (op == "fsym") { // ["fsym", "f", args...]
        vec_basic a = args_from(2);
        if (a.empty())
            a.push_back(sym_n(0));
        return function_symbol(r.size() > 1 ? r[1].s : std::string("f"), a);
    }
    if (op == "diff") { // ["diff", e, symindex...] : symbolic derivative
        RCP<const Basic> e = arg(1);
        // differentiating through unevaluated Subs objects or polynomial
        // nodes can recurse without end (a pure-input defect of diff, outside
        // the properties these recipes serve): unbuildable
        if (contains_kind(*e, {SYMENGINE_SUBS, SYMENGINE_URATPOLY, SYMENGINE_UINTPOLY}))
            throw BuildError("diff through Subs / polynomial nodes");
        for (size_t k = 2; k < r.size(); k++)
            e = e->diff(sym_n(r[k].as_int()));
        return e;
    }
    if (op == "derivative") { // unevaluated Derivative of a function symbol
        RCP<const Basic> e = arg(1);
        multiset_basic ms;
        for (size_t k = 2; k < r.size(); k++)
            ms.insert(sym_n(r[k].as_int()));
        if (ms.empty())
            ms.insert(sym_n(0));
        return Derivative::create(e, ms);
    }
    if (op == "subsobj") { // unevaluated Subs: ["subsobj", e, symindex, value]
        RCP<const Basic> e = arg(1);
        map_basic_basic d;
        d[sym_n(geti(2))] = arg(3);
        return make_rcp<const Subs>(e, d);
    }
    if (op == "subs") { // evaluated substitution
        RCP<const Basic> e = arg(1);
        map_basic_basic d;
        d[sym_n(geti(2))] = arg(3);
        return e->subs(d);
    }
    if (op == "expand")
        return expand(arg(1));
    {
        auto &u = unary_table();
        auto it = u.find(op);
        if (it != u.end()) {
            RCP<const Basic> a1 = arg(1);
            // conjugate(zoo*x) makes an invalid downcast inside the
            // constructor (a pure-input defect outside the properties these
            // recipes serve): such a recipe counts as unbuildable
            if (op == "conjugate" && contains_zoo(*a1))
                throw BuildError("conjugate of an expression containing zoo");
            // exact evaluation of these at a large number costs time and
            // memory proportional to its VALUE (gamma(14348907) is a
            // factorial with a hundred million digits): unbuildable
            if ((op == "gamma" || op == "loggamma" || op == "zeta" || op == "dirichlet_eta" || op == "digamma"
                 || op == "trigamma" || op == "primepi" || op == "primorial" || op == "lambertw")
                && is_a_Number(*a1) && !is_a<NaN>(*a1) && !is_a<Infty>(*a1)
                && !down_cast<const Number &>(*a1).is_complex()) {
                double mag = 0;
                try {
                    mag = std::fabs(eval_double(*a1));
                } catch (const SymEngineException &) {
                    mag = 1e300;
                }
                if (!(mag <= 2000.0))
                    throw BuildError("special function of a large number");
            }
            return it->second(a1);
        }
        auto &b = binary_table();
        auto jt = b.find(op);
        if (jt != b.end())
            return jt->second(arg(1), arg(2));
    }
    throw BuildError("unknown recipe op " + op);
}

// ---------------------------------------------------------------------------
// Generation profiles
struct Profile {
    std::vector<std::string> unary;   // numeric -> numeric
    std::vector<std::string> binary;  // numeric x numeric -> numeric
    bool relational = true;           // numeric x numeric -> bool, usable via piecewise / as 0/1
    bool logic = true;
    bool piecewise = true;
    bool contains = true;             // Contains(expr, Interval)
    bool maxmin = true;
    bool reals = true;                // RealDouble leaves
    bool rationals = true;
    bool complexes = false;
    bool constants = true;
    bool bool_as_number = false;      // booleans may appear where numbers do (lambda real)
    bool infinities = false;
    unsigned nsyms = 3;
    unsigned max_int = 6;
};

inline Json rleaf(Rng &g, const Profile &p, size_t poolsize)
{
    Json r = Json::array();
    unsigned k = (unsigned)g.below(12);
    if (poolsize > 0 && k < 3) {
        r.push("ref");
        r.push((long long)g.below(poolsize));
        return r;
    }
    if (k < 6) {
        r.push("sym");
        r.push((long long)g.below(p.nsyms));
        return r;
    }
    if (k < 8 || (!p.reals && !p.rationals)) {
        r.push("int");
        r.push((long long)g.range(-(int64_t)p.max_int, p.max_int));
        return r;
    }
    if (k == 8 && p.rationals) {
        r.push("rat");
        r.push((long long)g.range(-7, 7));
        r.push((long long)g.range(2, 9));
        return r;
    }
    if (k == 9 && p.reals) {
        static const double vals[] = {0.5, -0.25, 1.5, 2.75, -3.125, 0.1, 1e-3, 12.5, -0.7};
        r.push("real");
        r.push(vals[g.below(sizeof vals / sizeof vals[0])]);
        return r;
    }
    if (k == 10 && p.constants) {
        static const char *c[] = {"pi", "E", "EulerGamma", "Catalan", "GoldenRatio"};
        r.push(g.chance(1, 3) ? "newconst" : "const");
        r.push(c[g.below(5)]);
        return r;
    }
    if (k == 11 && p.complexes) {
        r.push("cplx");
        r.push((long long)g.range(-5, 5));
        r.push((long long)g.range(1, 4));
        r.push((long long)g.range(-5, 5));
        r.push((long long)g.range(1, 4));
        return r;
    }
    r.push("sym");
    r.push((long long)g.below(p.nsyms));
    return r;
}

inline Json rnum(Rng &g, const Profile &p, int depth, size_t poolsize);

inline Json rbool(Rng &g, const Profile &p, int depth, size_t poolsize)
{
    Json r = Json::array();
    unsigned k = (unsigned)g.below(10);
    if (depth <= 0 || k < 5 || !p.logic) {
        if (p.contains && g.chance(1, 5)) {
            r.push("contains");
            r.push(rnum(g, p, depth - 1, poolsize));
            Json iv = Json::array();
            iv.push("interval");
            Json a = Json::array(), b = Json::array();
            int64_t lo = g.range(-4, 2);
            a.push("int");
            a.push((long long)lo);
            b.push("int");
            b.push((long long)(lo + g.range(1, 5)));
            if (p.infinities && g.chance(1, 4)) {
                a = Json::array();
                a.push("inf");
                a.push(-1);
            }
            iv.push(a);
            iv.push(b);
            iv.push((long long)g.below(2));
            iv.push((long long)g.below(2));
            r.push(iv);
            return r;
        }
        static const char *rel[] = {"lt", "le", "gt", "ge", "eq", "ne"};
        r.push(rel[g.below(6)]);
        r.push(rnum(g, p, depth - 1, poolsize));
        r.push(rnum(g, p, depth - 1, poolsize));
        return r;
    }
    if (k == 5) {
        r.push("not");
        r.push(rbool(g, p, depth - 1, poolsize));
        return r;
    }
    static const char *ops[] = {"and", "or", "xor"};
    r.push(ops[g.below(3)]);
    unsigned n = 2 + (unsigned)g.below(2);
    for (unsigned i = 0; i < n; i++)
        r.push(rbool(g, p, depth - 1, poolsize));
    return r;
}

inline Json rnum(Rng &g, const Profile &p, int depth, size_t poolsize)
{
    if (depth <= 0 || g.chance(1, 6))
        return rleaf(g, p, poolsize);
    Json r = Json::array();
    unsigned k = (unsigned)g.below(20);
    if (k < 5) {
        r.push(g.chance(1, 2) ? "add" : "mul");
        unsigned n = 2 + (unsigned)g.below(3);
        for (unsigned i = 0; i < n; i++)
            r.push(rnum(g, p, depth - 1, poolsize));
        return r;
    }
    if (k < 7) {
        r.push("pow");
        r.push(rnum(g, p, depth - 1, poolsize));
        if (g.chance(2, 3)) {
            Json e = Json::array();
            if (g.chance(1, 3)) {
                e.push("rat");
                e.push((long long)g.range(-7, 7));
                e.push((long long)(g.chance(3, 4) ? 2 : 3));
            } else {
                e.push("int");
                e.push((long long)g.range(-3, 4));
            }
            r.push(e);
        } else
            r.push(rnum(g, p, depth - 1, poolsize));
        return r;
    }
    if (k < 12 && !p.unary.empty()) {
        r.push(p.unary[g.below(p.unary.size())]);
        r.push(rnum(g, p, depth - 1, poolsize));
        return r;
    }
    if (k < 14 && !p.binary.empty()) {
        r.push(p.binary[g.below(p.binary.size())]);
        r.push(rnum(g, p, depth - 1, poolsize));
        r.push(rnum(g, p, depth - 1, poolsize));
        return r;
    }
    if (k == 14 && p.maxmin) {
        r.push(g.chance(1, 2) ? "max" : "min");
        unsigned n = 2 + (unsigned)g.below(2);
        for (unsigned i = 0; i < n; i++)
            r.push(rnum(g, p, depth - 1, poolsize));
        return r;
    }
    if (k == 15 && p.piecewise) {
        r.push("piecewise");
        unsigned n = 1 + (unsigned)g.below(2);
        for (unsigned i = 0; i < n; i++) {
            r.push(rnum(g, p, depth - 1, poolsize));
            r.push(rbool(g, p, depth - 1, poolsize));
        }
        r.push(rnum(g, p, depth - 1, poolsize));
        return r;
    }
    if (k == 16 && p.bool_as_number)
        return rbool(g, p, depth - 1, poolsize);
    if (k == 17) {
        r.push(g.chance(1, 2) ? "sub" : "div");
        r.push(rnum(g, p, depth - 1, poolsize));
        r.push(rnum(g, p, depth - 1, poolsize));
        return r;
    }
    r.push("add");
    r.push(rnum(g, p, depth - 1, poolsize));
    r.push(rnum(g, p, depth - 1, poolsize));
    return r;
}


// ---------------------------------------------------------------------------
// "everything serialisable" generator (C19 / C20 / C41 workloads)
inline Json rall(Rng &g, int depth, size_t poolsize);
inline Json rallbool(Rng &g, int depth, size_t poolsize);

inline Json rallnum_leaf(Rng &g, size_t poolsize)
{
    Json r = Json::array();
    switch (g.below(23)) {
        case 22: {
            r.push("uratpoly");
            r.push((long long)g.below(3));
            unsigned n = 1 + (unsigned)g.below(5);
            for (unsigned i = 0; i < n; i++) {
                r.push((long long)(g.chance(1, 3) ? 0 : g.range(-9, 9)));
                r.push((long long)g.range(1, 7));
            }
            return r;
        }
        case 0:
        case 1:
            if (poolsize > 0) {
                r.push("ref");
                r.push((long long)g.below(poolsize));
                return r;
            }
            // fallthrough
        case 2:
        case 3:
        case 4:
            r.push("sym");
            r.push((long long)g.below(5));
            return r;
        case 5:
        case 6:
            r.push("int");
            if (g.chance(1, 4)) { // where small-value caches and word sizes end
                static const long long edge[] = {-129, -128, -127, -6, -5, -1, 0, 1, 99, 100, 127, 128,
                                                 255, 256, 257, 511, 512, 1000, 1023, 1024, 4095, 4096,
                                                 32767, 32768, 65535, 65536, 65537, 1000000};
                r.push(edge[g.below(sizeof edge / sizeof edge[0])]);
            } else
                r.push((long long)g.range(-20, 20));
            return r;
        case 7: { // big integers only as operands of + and * (special
                  // functions of huge arguments recurse very deeply)
            r.push(g.chance(1, 2) ? "add" : "mul");
            Json bi = Json::array();
            bi.push("bigint");
            {
                // around the word-size boundaries (2^31, 2^32, 2^63, 2^64,
                // 10^18, 10^19) and random digit strings of 15-25 digits
                static const char *edge[] = {"2147483647", "2147483648", "4294967295", "4294967296",
                                             "9223372036854775807", "9223372036854775808",
                                             "9223372036854775809", "9999999999999999999",
                                             "10000000000000000000", "18446744073709551615",
                                             "18446744073709551616", "999999999999999999",
                                             "1000000000000000000", "9876543210123456789"};
                std::string digits;
                if (g.chance(1, 4)) {
                    // 2^64 + k and 2^65 + k: equal to the small integer k in
                    // their low 64 bits, which is all Integer::__hash__ reads
                    long long k = g.range(-20, 20);
                    bool twice = g.chance(1, 4);
                    unsigned __int128 v = ((unsigned __int128)1 << (twice ? 65 : 64));
                    v = k < 0 ? v - (unsigned __int128)(-k) : v + (unsigned __int128)k;
                    while (v) {
                        digits.insert(digits.begin(), (char)('0' + (int)(v % 10)));
                        v /= 10;
                    }
                } else if (g.chance(1, 2))
                    digits = edge[g.below(sizeof edge / sizeof edge[0])];
                else {
                    unsigned nd = 15 + (unsigned)g.below(11);
                    digits.push_back((char)('1' + g.below(9)));
                    for (unsigned i = 1; i < nd; i++)
                        digits.push_back((char)('0' + g.below(10)));
                }
                bi.push(std::string(g.chance(1, 2) ? "-" : "") + digits);
            }
            r.push(bi);
            Json sy = Json::array();
            sy.push("sym");
            sy.push((long long)g.below(5));
            r.push(sy);
            return r;
        }
        case 8:
        case 9:
            r.push("rat");
            r.push((long long)g.range(-40, 40));
            r.push((long long)g.range(2, 19));
            return r;
        case 10: {
            static const double vals[] = {0.5, -0.25, 1.5, 2.75, -3.125, 0.1,
                                          1e-3, 12.5, -0.7, 1e30, 5e-324, 3.0};
            r.push("real");
            r.push(vals[g.below(12)]);
            return r;
        }
        case 11: { // exact bit patterns: -0.0, +inf, -inf, denormal, odd mantissa
            // (infinite doubles are left out: floor/ceiling/arithmetic on
            // them fail inside constructors, which is outside C19/C20)
            static const char *bits[] = {"8000000000000000", "0000000000000001",
                                         "3ff0000000000001", "400921fb54442d18",
                                         "bfb999999999999a", "3fd5555555555555",
                                         "c00c000000000001"};
            r.push("realbits");
            r.push(bits[g.below(7)]);
            return r;
        }
        case 12:
        case 13:
            r.push("cplx");
            r.push((long long)g.range(-9, 9));
            r.push((long long)g.range(1, 7));
            r.push((long long)g.range(-9, 9));
            r.push((long long)g.range(1, 7));
            return r;
        case 14:
            r.push("cdbl");
            r.push(g.chance(1, 2) ? 0.5 : -1.25);
            r.push(g.chance(1, 2) ? 2.0 : -0.75);
            return r;
        case 15:
        case 16: {
            static const char *c[] = {"pi", "E", "EulerGamma", "Catalan", "GoldenRatio", "I"};
            r.push("const");
            r.push(c[g.below(6)]);
            return r;
        }
        case 17: // +oo / -oo (zoo is left out: conjugate(zoo*x) makes an
                 // invalid downcast inside the constructor)
            r.push("inf");
            r.push(g.chance(1, 2) ? 1 : -1);
            return r;
        case 18:
            r.push("nan");
            return r;
        case 20:
            if (g.chance(1, 2)) { // names no identifier grammar would accept
                static const char *nm[] = {"a b", "flow rate", "x\ty", "", "\xce\xbc", "a+b", "f(x)", "\"q\"",
                                           " lead", "trail ", "x\ny", "'s'", "1x", "x,y"};
                r.push("symn");
                r.push(nm[g.below(sizeof nm / sizeof nm[0])]);
                return r;
            }
            if (g.chance(1, 2)) {
                r.push("twins");
                r.push((long long)g.below(4));
                r.push((long long)g.range(-9, 9));
                r.push((long long)g.below(4));
                r.push((long long)g.below(2));
                return r;
            }
            {
                static const char *bits[] = {"8000000000000000", "0000000000000000", "3ff8000000000000",
                                             "bfe0000000000000", "0000000000000001"};
                r.push("cdblbits");
                r.push(bits[g.below(5)]);
                r.push(bits[g.below(5)]);
                return r;
            }
        case 19:
            r.push("dummy");
            r.push((long long)g.below(6));
            r.push(g.chance(1, 2) ? "d" : "tmp");
            return r;
        default:
            r.push("sym");
            r.push((long long)g.below(8));
            return r;
    }
}

inline Json rallset_simple(Rng &g, size_t poolsize)
{
    Json r = Json::array();
    auto num = [&](int64_t lo, int64_t hi) {
        Json a = Json::array();
        if (g.chance(1, 4)) {
            a.push("rat");
            a.push((long long)(2 * g.range(lo, hi) + 1));
            a.push(2);
        } else {
            a.push("int");
            a.push((long long)g.range(lo, hi));
        }
        return a;
    };
    switch (g.below(5)) {
        case 0:
        case 1: {
            r.push("interval");
            Json lo = num(-9, 0), hi = num(1, 9);
            if (g.chance(1, 6)) {
                lo = Json::array();
                lo.push("inf");
                lo.push(-1);
            }
            if (g.chance(1, 6)) {
                hi = Json::array();
                hi.push("inf");
                hi.push(1);
            }
            r.push(lo);
            r.push(hi);
            r.push((long long)g.below(2));
            r.push((long long)g.below(2));
            return r;
        }
        case 2: {
            static const char *n[] = {"reals", "rationals", "integers", "empty", "universal"};
            r.push("set");
            r.push(n[g.below(5)]);
            return r;
        }
        default: {
            r.push("finiteset");
            unsigned n = 1 + (unsigned)g.below(4);
            for (unsigned i = 0; i < n; i++) {
                Json e = Json::array();
                switch (g.below(4)) {
                    case 0:
                        e.push("sym");
                        e.push((long long)g.below(5));
                        break;
                    case 1:
                        e.push("rat");
                        e.push((long long)g.range(-9, 9));
                        e.push((long long)g.range(2, 5));
                        break;
                    case 2:
                        e.push("real");
                        e.push(g.chance(1, 2) ? 0.5 : -2.75);
                        break;
                    default:
                        e.push("int");
                        e.push((long long)g.range(-9, 9));
                }
                r.push(e);
            }
            return r;
        }
    }
}

// set constructors are only combined in shapes the library's set algebra
// handles (deeper mixes of Complement / ConditionSet / Union recurse without
// bound inside set_union & co., which is outside the serialization properties)
inline Json rallset(Rng &g, int depth, size_t poolsize)
{
    Json r = Json::array();
    unsigned k = (unsigned)g.below(depth <= 0 ? 3 : 8);
    switch (k) {
        case 0:
        case 1:
        case 2:
            return rallset_simple(g, poolsize);
        case 3:
        case 4: {
            r.push("union");
            unsigned n = 2 + (unsigned)g.below(2);
            for (unsigned i = 0; i < n; i++) {
                Json e = rallset_simple(g, poolsize);
                while (e[0].s == "set")
                    e = rallset_simple(g, poolsize);
                r.push(e);
            }
            return r;
        }
        case 5: {
            r.push("complement");
            Json u = Json::array();
            u.push("set");
            u.push(g.chance(1, 2) ? "reals" : "integers");
            r.push(u);
            Json e = rallset_simple(g, poolsize);
            while (e[0].s == "set")
                e = rallset_simple(g, poolsize);
            r.push(e);
            return r;
        }
        case 6: {
            r.push("imageset");
            r.push((long long)g.below(3));
            r.push(rall(g, depth - 1, poolsize));
            Json e = rallset_simple(g, poolsize);
            while (e[0].s == "finiteset")
                e = rallset_simple(g, poolsize);
            r.push(e);
            return r;
        }
        default: {
            r.push("conditionset");
            r.push((long long)g.below(3));
            Json c = Json::array();
            static const char *rel[] = {"lt", "le", "gt", "ge"};
            c.push(rel[g.below(4)]);
            Json sy = Json::array();
            sy.push("sym");
            sy.push((long long)g.below(3));
            c.push(sy);
            c.push(rall(g, depth - 1, poolsize));
            r.push(c);
            return r;
        }
    }
}

inline Json rallbool(Rng &g, int depth, size_t poolsize)
{
    Json r = Json::array();
    unsigned k = (unsigned)g.below(depth <= 0 ? 5 : 11);
    if (k < 4) {
        static const char *rel[] = {"lt", "le", "gt", "ge", "eq", "ne"};
        r.push(rel[g.below(6)]);
        r.push(rall(g, depth - 1, poolsize));
        r.push(rall(g, depth - 1, poolsize));
        return r;
    }
    if (k == 4) {
        r.push("bool");
        r.push((long long)g.below(2));
        return r;
    }
    if (k == 5) {
        r.push("contains");
        r.push(rall(g, depth - 1, poolsize));
        r.push(rallset(g, depth - 1, poolsize));
        return r;
    }
    if (k == 6) {
        r.push("not");
        r.push(rallbool(g, depth - 1, poolsize));
        return r;
    }
    static const char *ops[] = {"and", "or", "xor", "nand", "xnor"};
    r.push(ops[g.below(5)]);
    unsigned n = 2 + (unsigned)g.below(2);
    for (unsigned i = 0; i < n; i++)
        r.push(rallbool(g, depth - 1, poolsize));
    return r;
}

inline Json rall(Rng &g, int depth, size_t poolsize)
{
    if (depth <= 0 || g.chance(1, 6))
        return rallnum_leaf(g, poolsize);
    Json r = Json::array();
    static const std::vector<std::string> un = {
        "sin", "cos", "tan", "cot", "csc", "sec", "asin", "acos", "asec", "acsc",
        "atan", "acot", "sinh", "csch", "cosh", "sech", "tanh", "coth", "asinh",
        "acsch", "acosh", "atanh", "acoth", "asech", "log", "exp", "abs", "sign",
        "floor", "ceiling", "truncate", "conjugate", "gamma", "loggamma", "erf",
        "erfc", "lambertw", "zeta", "dirichlet_eta", "digamma", "sqrt", "cbrt",
        "neg", "unevaluated", "primepi", "primorial"};
    static const std::vector<std::string> bin = {
        "pow", "sub", "div", "atan2", "beta", "lowergamma", "uppergamma",
        "polygamma", "kronecker_delta", "logb"};
    // (zeta(s, a) is left out: zeta(-6, 0) loops in harmonic(2^64-1, ...),
    // a constructor problem outside the serialization / threading properties)
    unsigned k = (unsigned)g.below(24);
    if (k < 5) {
        r.push(g.chance(1, 2) ? "add" : "mul");
        unsigned n = 2 + (unsigned)g.below(3);
        for (unsigned i = 0; i < n; i++)
            r.push(rall(g, depth - 1, poolsize));
        return r;
    }
    if (k < 7) {
        r.push("pow");
        r.push(rall(g, depth - 1, poolsize));
        // exponents stay small: exact powers of complex / rational numbers
        // with huge exponents take unbounded time inside the constructor
        Json e = Json::array();
        if (g.chance(1, 2)) {
            e.push("rat");
            e.push((long long)g.range(-5, 5));
            e.push((long long)g.range(2, 3));
        } else if (g.chance(1, 2)) {
            e.push("int");
            e.push((long long)g.range(-4, 5));
        } else {
            e.push("sym");
            e.push((long long)g.below(5));
        }
        r.push(e);
        return r;
    }
    if (k < 12) {
        const std::string &f = un[g.below(un.size())];
        r.push(f);
        if (f == "gamma" || f == "loggamma" || f == "zeta" || f == "dirichlet_eta"
            || f == "digamma" || f == "lambertw" || f == "primepi" || f == "primorial") {
            // exact evaluation at integers costs time proportional to the
            // argument (factorials, Bernoulli numbers): keep arguments small
            Json a = Json::array();
            switch (g.below(3)) {
                case 0:
                    a.push("sym");
                    a.push((long long)g.below(5));
                    break;
                case 1:
                    a.push("int");
                    a.push((long long)g.range(1, 12));
                    break;
                default:
                    a.push("rat");
                    a.push((long long)g.range(1, 15));
                    a.push((long long)g.range(2, 5));
            }
            r.push(a);
            return r;
        }
        r.push(rall(g, depth - 1, poolsize));
        return r;
    }
    if (k < 15) {
        const std::string &f = bin[g.below(bin.size())];
        r.push(f);
        if (f == "sub" || f == "div" || f == "atan2" || f == "kronecker_delta") {
            r.push(rall(g, depth - 1, poolsize));
            r.push(rall(g, depth - 1, poolsize));
            return r;
        }
        // special functions and pow: small arguments (their constructors
        // recurse / iterate proportionally to integer arguments)
        for (int q = 0; q < 2; q++) {
            Json a = Json::array();
            switch (g.below(4)) {
                case 0:
                    a.push("sym");
                    a.push((long long)g.below(5));
                    break;
                case 1: // positive: beta(-2, -3) asks GMP for (2^64-5)!
                    a.push("int");
                    a.push((long long)g.range(1, 6));
                    break;
                case 2:
                    a.push("rat");
                    a.push((long long)g.range(1, 9));
                    a.push((long long)g.range(2, 5));
                    break;
                default:
                    a.push("real");
                    a.push(g.chance(1, 2) ? 0.5 : -2.75);
            }
            r.push(a);
        }
        return r;
    }
    if (k == 15) {
        r.push(g.chance(1, 2) ? "max" : "min");
        unsigned n = 2 + (unsigned)g.below(2);
        for (unsigned i = 0; i < n; i++)
            r.push(rall(g, depth - 1, poolsize));
        return r;
    }
    if (k == 16) {
        r.push("levi_civita");
        unsigned n = 2 + (unsigned)g.below(2);
        for (unsigned i = 0; i < n; i++)
            r.push(g.chance(1, 2) ? rallnum_leaf(g, poolsize) : rall(g, depth - 1, poolsize));
        return r;
    }
    if (k == 17) {
        r.push("fsym");
        r.push(g.chance(1, 2) ? "f" : "gfun");
        unsigned n = 1 + (unsigned)g.below(3);
        for (unsigned i = 0; i < n; i++)
            r.push(rall(g, depth - 1, poolsize));
        return r;
    }
    if (k == 18) {
        r.push("piecewise");
        unsigned n = 1 + (unsigned)g.below(2);
        for (unsigned i = 0; i < n; i++) {
            r.push(rall(g, depth - 1, poolsize));
            r.push(rallbool(g, depth - 1, poolsize));
        }
        r.push(rall(g, depth - 1, poolsize));
        return r;
    }
    if (k == 19) { // unevaluated derivative of an undefined function
        r.push("derivative");
        Json f = Json::array();
        f.push("fsym");
        f.push("f");
        Json s0 = Json::array();
        s0.push("sym");
        s0.push(0);
        f.push(s0);
        if (g.chance(1, 2)) {
            Json s1 = Json::array();
            s1.push("sym");
            s1.push(1);
            f.push(s1);
        }
        r.push(f);
        r.push(0);
        if (g.chance(1, 2))
            r.push((long long)g.below(2));
        return r;
    }
    if (k == 20) {
        r.push("subsobj");
        Json d = Json::array();
        d.push("derivative");
        Json f = Json::array();
        f.push("fsym");
        f.push("f");
        Json s0 = Json::array();
        s0.push("sym");
        s0.push(0);
        f.push(s0);
        d.push(f);
        d.push(0);
        r.push(d);
        r.push(0);
        r.push(rall(g, depth - 1, poolsize));
        return r;
    }
    if (k == 21)
        return rallbool(g, depth - 1, poolsize);
    if (k == 22)
        return rallset(g, depth - 1, poolsize);
    r.push("diff");
    r.push(rall(g, depth - 1, poolsize));
    r.push((long long)g.below(3));
    return r;
}

inline size_t recipe_nodes(const Json &r)
{
    if (r.type != Json::Array)
        return 1;
    size_t n = 1;
    for (size_t k = 1; k < r.size(); k++)
        n += recipe_nodes(r[k]);
    return n;
}

} // namespace simx
