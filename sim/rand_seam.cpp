#include "rand_seam.h"
#include <cstdlib>
#include <gmp.h>

extern "C" int __wrap_rand(void)
{
    simrand::State &s = simrand::state();
    s.draws++;
    s.total_draws++;
    if (s.budget && s.draws > s.budget)
        throw simrand::BudgetExceeded();
    if (s.pos < s.list.size())
        return s.list[s.pos++] & 0x7fffffff;
    // list exhausted: deterministic continuation (xorshift), never constant
    uint64_t &x = s.fallback;
    x ^= x << 13;
    x ^= x >> 7;
    x ^= x << 17;
    return (int)((x >> 20) & 0x7fffffff);
}

// Second half of the randomness seam: -Wl,--wrap=__gmpz_urandomm. The real
// generator is always advanced (so the stream after a forced draw is the one
// the seed gives); a forced draw then overrides the value with a boundary one.
extern "C" void __real___gmpz_urandomm(mpz_ptr rop, gmp_randstate_t st, mpz_srcptr n);
extern "C" void __wrap___gmpz_urandomm(mpz_ptr rop, gmp_randstate_t st, mpz_srcptr n)
{
    simrand::State &s = simrand::state();
    uint64_t idx = s.gmp_draws++;
    // bounded liveness: a call that keeps drawing without finishing (a retry
    // loop that cannot succeed) ends here instead of at the watchdog
    // (a factorisation of degree <= 12 or a modular root draws a few dozen
    // numbers; 4000 draws are more than 170 failed attempts in a row)
    if (s.budget && s.gmp_draws > s.gmp_budget)
        throw simrand::BudgetExceeded();
    // n may alias rop
    mpz_t nn;
    mpz_init_set(nn, n);
    __real___gmpz_urandomm(rop, st, nn);
    for (auto &f : s.forced) {
        if (f.first != idx)
            continue;
        switch (f.second) {
            case 0:
                mpz_set_ui(rop, 0);
                break;
            case 1:
                mpz_set_ui(rop, 1);
                break;
            case 2:
                mpz_sub_ui(rop, nn, 1);
                break;
            case 3:
                mpz_fdiv_q_2exp(rop, nn, 1);
                break;
            default:
                mpz_set_ui(rop, 2);
        }
        mpz_fdiv_r(rop, rop, nn); // stay inside [0, n)
        s.forced_fired++;
        break;
    }
    mpz_clear(nn);
}
