#!/usr/bin/env python3
"""Regenerate /verif/MANIFEST.json from simpy/checks.py and the tables below.
Run after claiming / un-claiming a property:  python3 simpy/manifest_gen.py"""
import json, os, sys
VERIF = os.path.abspath(os.path.join(os.path.dirname(os.path.abspath(__file__)), '..'))
sys.path.insert(0, os.path.join(VERIF, 'simpy'))
from checks import CHECKS  # noqa

NA = {
 'C01': 'pure relation between two deterministic functions (__eq__, __hash__) of the argument values; the lazy hash_ cache only changes when the value is computed, not what it is (its thread-safety is C41). No schedule, history, fault or environment seam.',
 'C02': 'order axioms of __cmp__ over pairs/triples of immutable values: a pure function of its inputs.',
 'C03': 'programs over immutable values are expression DAGs, i.e. inputs; canonicity of a result is a function of the argument values. No state, schedule or fault.',
 'C04': 'permutation / bracketing invariance of pure constructors.',
 'C05': 'pure arithmetic on number values.',
 'C06': 'finite pair table of a pure function: exhaustive enumeration, not simulation.',
 'C07': 'value preservation of pure rewrites of immutable expressions.',
 'C08': 'pure constructors; the only impurity (primepi through the global sieve) is exercised as a sieve client inside C33/C32, which is not a claim on C08.',
 'C09': 'expand is a pure function of the input expression.',
 'C10': 'the differentiation cache is a per-call visitor member selected by an argument; nothing survives the call.',
 'C11': 'the subs cache lives and dies inside one call; cache on/off is an argument. Pure.',
 'C12': 'pure numeric function of the tree (its static dispatch table is covered by C41 static-initialisation interleavings).',
 'C14': 'pure function of (expression, inputs, opt level, CSE flag) in an LLVM build configuration; comparing configurations is differential testing. No schedule, history or fault in the statement.',
 'C15': 'pure printer output judged by an external compiler; nothing to schedule or fail.',
 'C16': 'composition of two pure functions (print, parse).',
 'C17': 'pure function of the input string (parser reuse is C18).',
 'C21': 'pure arithmetic on value-type polynomials.',
 'C22': 'pure arithmetic on value-type polynomials.',
 'C24': 'pure linear algebra on values; in-place row operations are single calls with no shared state.',
 'C26': 'pure functions of immutable matrix-expression trees.',
 'C27': 'pure set algebra on immutable values.',
 'C28': 'pure boolean simplification.',
 'C29': 'pure function on pairs of numbers.',
 'C30': 'pure (fresh Dummy indices affect names, not solution sets).',
 'C31': 'pure function of (f, x, n); the step_list static cache is noted in DESIGN.md but the property does not quantify over histories.',
 'C34': 'pure function of (expression, assumption set).',
 'C35': 'pure.',
 'C36': 'pure.',
 'C37': 'pure function of the expression list (fresh symbols chosen relative to the input, not global state).',
 'C38': 'pure.',
 'C39': 'pure tree walks.',
 'C40': 'quantifies over programs on valid arguments under sanitizers; with immutable values a program is an input, and the statement has no schedule, history or fault (it does not promise exception safety under allocation failure). Sanitizer fuzzing is a different family; all simulated runs of the claimed checks do execute under ASan/UBSan/TSan.',
 'C42': 'equivalence of two call paths on the same argument values and deterministic exception translation; no schedule, clock, fault or seam.',
 'C43': 'quantifies over build configurations; comparing builds is differential / translation validation.',
 'C44': 'pure functions of the expression.',
 'C45': 'pure numeric function in another build configuration (MPC not installed).',
 'C46': 'pure function of the matrix.',
}

LEVEL = {
 'C33': ('exploration', 'Seeded search over interleavings of logical clients of the process-global prime sieve, each step checked against an independent prime table and a per-iterator reference model, under ASan/UBSan with libstdc++ container annotations. Sampling of bounded histories (<=64 steps, limits <=3e6): evidence, not proof; right level because the property quantifies over call histories on global state and nothing smaller than running the real code decides it.', '4 (C33)'),
}
NOTE = {
 'C33': 'Trusted: the harness sieve of Eratosthenes as reference, ASan/UBSan reporting. Bounds: sieve sizes {1,2,3,4,8,16,32,64} KB, limits <= 3e6, <=5 live iterators. A bounded iterator is allowed to return cached primes beyond its limit (callers test p <= limit).',
}
TECH = {
 'C33': 'deterministic simulation: seeded interleaving of cooperative clients over the global sieve + reference model, ASan/UBSan, ddmin replay',
}


def main():
    checks = []
    for pid in sorted(CHECKS):
        if pid not in LEVEL:
            continue
        cat, text, ref = LEVEL[pid]
        checks.append({
            'property_id': pid,
            'quick_cmd': 'bin/check %s --tier quick' % pid,
            'thorough_cmd': 'bin/check %s --tier thorough' % pid,
            'evidence_file': 'evidence/%s.json' % pid,
            'replay_cmd_template': 'bin/check %s --replay {path}' % pid,
            'engine': 'sim',
            'level_claimed': {'category': cat, 'text': text, 'design_ref': 'DESIGN.md section ' + ref},
            'level_note': NOTE[pid],
            'technique': TECH[pid],
        })
    claimed = set(c['property_id'] for c in checks)
    na = []
    props = [json.loads(l)['id'] for l in open(os.path.join(VERIF, 'properties.jsonl'))]
    for pid in props:
        if pid in claimed:
            continue
        reason = NA.get(pid) or 'claimable by the technique (see DESIGN.md) but its check is not yet built/validated in this tree; not claimed until it is.'
        na.append({'property_id': pid, 'reason': reason})
    hooks_commits = []
    hp = os.path.join(VERIF, 'hooks_commits.txt')
    if os.path.exists(hp):
        hooks_commits = [l.split()[0] for l in open(hp) if l.strip() and not l.startswith('#')]
    m = {
        'version': 1,
        'setup_cmd': 'bin/setup',
        'hooks': {
            'guard': 'SYMENGINE_VERIF_SIM',
            'enable': 'bin/build-lib <variant> configures /repo out-of-tree into /verif/build/<variant> with -DSYMENGINE_VERIF_SIM in CMAKE_CXX_FLAGS (plus sanitizer flags); hooks are add-only yield points for the simulator scheduler',
            'baseline_off_cmd': 'bin/baseline-off',
            'source_commits': hooks_commits,
            'add_only': True,
        },
        'engines': [{
            'name': 'sim',
            'path': 'sim/ simpy/ checks/ bin/',
            'serves_properties': sorted(claimed),
            'kind_free_text': 'hand-written deterministic simulator: seeded plans (xoshiro256** from VERIF_SEED), cooperative clients / parked real threads, environment seams (rand, allocator, byte streams, storage faults), reference-model oracles, sanitizer builds, ddmin minimisation, replay files',
        }],
        'checks': checks,
        'not_applicable': na,
        'notes': 'Technique family: deterministic simulation with fault injection. See DESIGN.md for the applicability rule; known_findings.jsonl lists fixed / known defects.',
    }
    with open(os.path.join(VERIF, 'MANIFEST.json'), 'w') as f:
        json.dump(m, f, indent=1)
    print('MANIFEST.json: %d claimed, %d not applicable' % (len(checks), len(na)))


if __name__ == '__main__':
    main()
