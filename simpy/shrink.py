"""Plan minimisation: delta debugging over every shrinkable list of a plan
(operations, faults attached to operations, threads, scheduler switch points,
seed lists), then integer arguments. Operations carry their own faults and all
indices inside a plan are interpreted modulo what exists, so any sub-list of a
plan is still a valid plan.  `test(plan)` must return True iff the plan still
fails with the SAME violation signature.
"""
import copy

DEFAULT_KEYS = ('ops', 'faults', 'threads', 'switches', 'inputs', 'seeds', 'outputs', 'objects', 'steps')


class Budget(Exception):
    pass


def _lists(node, keys, path=()):
    """yield paths of shrinkable lists, outermost first"""
    if isinstance(node, dict):
        for k, v in node.items():
            if isinstance(v, list) and k in keys and len(v) > 0:
                yield path + (k,)
            if isinstance(v, (dict, list)):
                yield from _lists(v, keys, path + (k,))
    elif isinstance(node, list):
        for i, v in enumerate(node):
            if isinstance(v, (dict, list)):
                yield from _lists(v, keys, path + (i,))


def _get(node, path):
    for p in path:
        node = node[p]
    return node


def _set(node, path, val):
    for p in path[:-1]:
        node = node[p]
    node[path[-1]] = val


def _ddmin(plan, path, test, min_len=0):
    """classic ddmin on the list at `path`; returns (plan, changed)"""
    items = _get(plan, path)
    n = 2
    changed = False
    while len(items) > min_len:
        if len(items) == 1:
            cand = copy.deepcopy(plan)
            _set(cand, path, [])
            if min_len == 0 and test(cand):
                plan, items, changed = cand, [], True
            break
        chunk = max(1, len(items) // n)
        reduced = False
        # try removing each chunk (complement testing)
        i = 0
        while i < len(items):
            rest = items[:i] + items[i + chunk:]
            if len(rest) < min_len:
                i += chunk
                continue
            cand = copy.deepcopy(plan)
            _set(cand, path, rest)
            if test(cand):
                plan, items, changed, reduced = cand, rest, True, True
                n = max(n - 1, 2)
                # do not advance i: the next chunk moved into this position
            else:
                i += chunk
        if not reduced:
            if chunk == 1:
                break
            n = min(len(items), n * 2)
    return plan, changed


def _ints(node, names, path=()):
    if isinstance(node, dict):
        for k, v in node.items():
            if k in names and isinstance(v, int) and not isinstance(v, bool):
                yield path + (k,)
            elif isinstance(v, (dict, list)):
                yield from _ints(v, names, path + (k,))
    elif isinstance(node, list):
        for i, v in enumerate(node):
            if isinstance(v, (dict, list)):
                yield from _ints(v, names, path + (i,))


def minimise(plan, test, budget=250, int_names=(), keys=None):
    keys = tuple(keys) if keys else DEFAULT_KEYS
    plan = copy.deepcopy(plan)
    plan.pop('expect', None)
    count = [0]

    def t(p):
        count[0] += 1
        if count[0] > budget:
            raise Budget()
        return test(p)

    best = [plan]

    def tt(p):
        ok = t(p)
        if ok:
            best[0] = p
        return ok
    try:
        for _round in range(4):
            progress = False
            paths = list(_lists(best[0], keys))
            # outermost lists first; recompute paths after each change
            done = set()
            while True:
                paths = [p for p in _lists(best[0], keys) if p not in done]
                if not paths:
                    break
                p = paths[0]
                done.add(p)
                newp, ch = _ddmin(best[0], p, tt)
                if ch:
                    best[0] = newp
                    progress = True
            for p in list(_ints(best[0], set(int_names))):
                try:
                    v = _get(best[0], p)
                except (KeyError, IndexError):
                    continue
                for cand_v in (0, 1, 2, v // 16, v // 4, v // 2, v - 1):
                    if cand_v == v or cand_v < 0 or cand_v >= v:
                        continue
                    cand = copy.deepcopy(best[0])
                    _set(cand, p, cand_v)
                    if tt(cand):
                        progress = True
                        break
            if not progress:
                break
    except Budget:
        pass
    return best[0]
