// C13: lambda double evaluators: re-initialised evaluator == fresh one,
// CSE on == CSE off == value of the substituted expression.
//
// Simulation: 1-3 long-lived evaluator objects (real and complex) driven
// through a seeded history of init (bigger / smaller / zero CSE tables, CSE
// flag flipped, failing inits), call, and move-construct / move-assign, with
// steps of different objects interleaved. Oracle after every call:
// bit-identical to a fresh evaluator built with the same arguments; tolerance
// comparison with the CSE-flipped twin and with eval_double(subs(...)) at
// well-conditioned points only. ASan/UBSan watch for dangling CSE pointers.
#include "../sim/harness.h"
#include "../sim/alloc_seam.h"
#include "../sim/exprgen.h"
#include "../sim/refeval.h"
#include <symengine/lambda_double.h>
#include <symengine/eval_double.h>
#include <symengine/real_double.h>
#include <symengine/complex_double.h>
#include <cmath>
#include <complex>
#include <memory>

using namespace sim;
using namespace SymEngine;

SIM_SANITIZER_DEFAULTS()

namespace
{
const int NSLOT = 3;

simx::Profile real_profile()
{
    simx::Profile p;
    p.unary = {"sin",   "cos",   "tan",   "cot",      "csc",   "sec",
               "asin",  "acos",  "asec",  "acsc",     "atan",  "acot",
               "sinh",  "csch",  "cosh",  "sech",     "tanh",  "coth",
               "asinh", "acsch", "acosh", "atanh",    "acoth", "asech",
               "log",   "exp",   "abs",   "sign",     "floor", "ceiling",
               "truncate", "gamma", "loggamma", "erf", "erfc", "sqrt", "neg"};
    p.binary = {"atan2"};
    p.complexes = false;
    p.infinities = true;
    p.nsyms = 4;
    return p;
}
simx::Profile complex_profile()
{
    simx::Profile p;
    p.unary = {"sin",  "cos",  "tan",   "cot",   "csc",   "sec",  "asin",
               "acos", "atan", "sinh",  "cosh",  "tanh",  "coth", "asinh",
               "acosh", "atanh", "log", "exp",   "sqrt",  "neg"};
    p.binary = {};
    p.relational = false;
    p.logic = false;
    p.piecewise = false;
    p.contains = false;
    p.maxmin = false;
    p.complexes = true;
    p.nsyms = 3;
    return p;
}

Json gen_init(Rng &g, unsigned ev, bool cplx, bool thorough)
{
    simx::Profile p = cplx ? complex_profile() : real_profile();
    Json o = Json::object();
    o["op"] = "init";
    o["ev"] = ev;
    unsigned nin = 1 + (unsigned)g.below(p.nsyms);
    p.nsyms = nin;
    o["nin"] = nin;
    o["cse"] = g.chance(3, 5);
    // shared sub-expressions: a small pool the outputs refer to
    Json pool = Json::array();
    unsigned npool = (unsigned)g.below(4);
    int depth = 1 + (int)g.below(thorough ? 4 : 3);
    for (unsigned i = 0; i < npool; i++)
        pool.push(simx::rnum(g, p, depth, i));
    o["pool"] = pool;
    Json outs = Json::array();
    unsigned nout = 1 + (unsigned)g.below(6);
    if (g.chance(1, 6)) {
        // overlapping sums / products of a few symbols: cse() has to find
        // common argument sets among several n-ary nodes, in several stages
        nout = 3 + (unsigned)g.below(4);
        bool prod = g.chance(1, 3);
        for (unsigned i = 0; i < nout; i++) {
            Json r = Json::array();
            r.push(prod ? "mul" : "add");
            unsigned mask;
            do
                mask = (unsigned)g.below(1u << (nin + 2));
            while (__builtin_popcount(mask) < 2);
            for (unsigned b = 0; b < nin + 2; b++)
                if (mask & (1u << b)) {
                    Json leaf = Json::array();
                    if (b < nin) {
                        leaf.push("sym");
                        leaf.push((long long)b);
                    } else {
                        leaf.push(b == nin ? "sin" : "exp");
                        Json sy = Json::array();
                        sy.push("sym");
                        sy.push(0);
                        leaf.push(sy);
                    }
                    r.push(leaf);
                }
            outs.push(r);
        }
        nout = 0;
    }
    if (!cplx && nout > 0 && g.chance(1, 8)) {
        // several Piecewise outputs guarded by the very same condition (and
        // floor / ceiling of shared subexpressions): what cse() rebuilds once
        // it has to rebuild the same way everywhere
        Json cond = simx::rbool(g, p, 1, npool);
        Json shared = simx::rnum(g, p, 2, npool);
        unsigned np = 2 + (unsigned)g.below(3);
        for (unsigned i = 0; i < np; i++) {
            Json pw = Json::array();
            pw.push("piecewise");
            Json br = Json::array();
            br.push(g.chance(1, 2) ? "floor" : (g.chance(1, 2) ? "ceiling" : "add"));
            br.push(shared);
            if (br[0].s == "add")
                br.push(simx::rnum(g, p, 1, npool));
            pw.push(br);
            pw.push(cond);
            pw.push(simx::rnum(g, p, 1, npool));
            outs.push(pw);
        }
        Json extra = Json::array();
        extra.push("sin");
        extra.push(shared);
        outs.push(extra);
        nout = 0;
    }
    for (unsigned i = 0; i < nout; i++) {
        if (!cplx && g.chance(1, 6))
            outs.push(simx::rbool(g, p, depth, npool));
        else
            outs.push(simx::rnum(g, p, depth, npool));
    }
    // failing initialisations: unknown symbol / unsupported node
    unsigned poison = g.chance(1, 8) ? 1 + (unsigned)g.below(2) : 0;
    if (poison == 1) {
        Json bad = Json::array();
        bad.push("add");
        Json s = Json::array();
        s.push("sym");
        s.push((long long)(nin)); // first symbol NOT among the inputs
        bad.push(s);
        bad.push(simx::rnum(g, p, 1, npool));
        outs.push(bad);
    } else if (poison == 2) {
        Json bad = Json::array();
        bad.push(g.chance(1, 2) ? "lambertw" : "zeta");
        bad.push(simx::rnum(g, p, 1, npool));
        outs.push(bad);
    }
    // inputs named like the temporaries cse() invents (x0, x1, ...): unused
    // ones must not shadow a temporary, used ones must not be reused as one
    Json extra = Json::array();
    if (g.chance(1, 3)) {
        static const char *nm[] = {"x0", "x1", "x2", "x3", "x4", "x10"};
        unsigned ne = 1 + (unsigned)g.below(3);
        for (unsigned i = 0; i < ne; i++) {
            std::string name = nm[g.below(6)];
            bool dup = false;
            for (size_t j = 0; j < extra.size(); j++)
                if (extra[j].s == name)
                    dup = true;
            if (dup)
                continue;
            extra.push(name);
            if (g.chance(1, 3) && outs.size() > 0) { // and used by an output
                size_t k = (size_t)g.below(outs.size());
                Json w = Json::array();
                w.push(g.chance(1, 2) ? "add" : "mul");
                w.push(outs[k]);
                Json sy = Json::array();
                sy.push("symn");
                sy.push(name);
                w.push(sy);
                outs.a[k] = w;
            }
        }
    }
    o["extra_inputs"] = extra;
    o["poison"] = poison;
    o["outputs"] = outs;
    o["single"] = (outs.size() == 1 && g.chance(1, 2));
    return o;
}

Json gen(uint64_t seed, const std::string &tier)
{
    Rng g(seed);
    bool thorough = tier == "thorough";
    Json plan = Json::object();
    unsigned nobj = 1 + (unsigned)g.below(NSLOT);
    Json kinds = Json::array();
    for (unsigned i = 0; i < nobj; i++)
        kinds.push(g.chance(1, 4) ? "complex" : "real");
    Json cfg = Json::object();
    cfg["kinds"] = kinds;
    static const char *pol[] = {"system", "lifo", "lifo", "fifo", "random"};
    cfg["policy"] = pol[g.below(5)];
    cfg["alloc_seed"] = (long long)(g.next() >> 2);
    plan["config"] = cfg;
    unsigned nops = 5 + (unsigned)g.below(thorough ? 50 : 36);
    // swarm: init / call / move weights
    std::vector<unsigned> w = {3, 8, 1};
    if (g.chance(1, 4))
        w[0] = 8;
    if (g.chance(1, 4))
        w[2] = 4;
    Json ops = Json::array();
    for (unsigned i = 0; i < nobj; i++)
        ops.push(gen_init(g, i, kinds[i].s == "complex", thorough));
    static const double nice[] = {0.0, 1.0, -1.0, 0.5, 2.0, -2.5, 3.25, 0.25, -0.75, 1.5};
    std::vector<Json> last_x(NSLOT);
    for (unsigned k = 0; k < nops; k++) {
        unsigned ev = (unsigned)g.below(nobj);
        switch (g.weighted(w)) {
            case 0:
                ops.push(gen_init(g, ev, kinds[ev].s == "complex", thorough));
                break;
            case 1: {
                Json o = Json::object();
                o["op"] = "call";
                o["ev"] = ev;
                Json x = Json::array();
                if (last_x[ev].size() && g.chance(1, 4)) {
                    // the very point of this evaluator's previous call (also
                    // across a re-initialisation), possibly with the sign of
                    // its zeros flipped
                    x = last_x[ev];
                    if (g.chance(1, 3))
                        for (auto &v : x.a)
                            if (v.as_double() == 0.0)
                                v = Json(std::signbit(v.as_double()) ? 0.0 : -0.0);
                    o["again"] = true;
                } else
                    for (unsigned q = 0; q < 8; q++) {
                        double v = g.chance(1, 3) ? nice[g.below(10)]
                                                  : (g.unit() * 8.0 - 4.0);
                        x.push(Json(v));
                    }
                last_x[ev] = x;
                o["x"] = x;
                ops.push(o);
                break;
            }
            default: {
                Json o = Json::object();
                o["op"] = "move";
                o["ev"] = ev;
                o["to"] = (unsigned)g.below(nobj);
                o["how"] = g.chance(1, 2) ? "construct" : "assign";
                ops.push(o);
            }
        }
    }
    plan["ops"] = ops;
    return plan;
}

// ---------------------------------------------------------------------------
template <class V, class T>
struct Slot {
    std::unique_ptr<V> v; // the long-lived evaluator under test
    std::unique_ptr<V> fresh; // initialised exactly once with the same args
    std::unique_ptr<V> twin;  // fresh, CSE flag flipped
    std::unique_ptr<V> sub;   // fresh, outputs = every numeric subexpression
    size_t nsub = 0;
    vec_basic inputs, outputs;
    bool cse = false;
    bool ready = false;
};

bool same_bits(double a, double b)
{
    if (std::isnan(a) && std::isnan(b))
        return true;
    return memcmp(&a, &b, sizeof a) == 0;
}
bool same_bits(std::complex<double> a, std::complex<double> b)
{
    return same_bits(a.real(), b.real()) && same_bits(a.imag(), b.imag());
}
std::string show(double a)
{
    char b[64];
    snprintf(b, sizeof b, "%.17g", a);
    return b;
}
std::string show(std::complex<double> a)
{
    return "(" + show(a.real()) + "," + show(a.imag()) + ")";
}
double mag(double a)
{
    return std::fabs(a);
}
double mag(std::complex<double> a)
{
    return std::abs(a);
}
bool finite(double a)
{
    return std::isfinite(a);
}
bool finite(std::complex<double> a)
{
    return std::isfinite(a.real()) && std::isfinite(a.imag());
}
void set_in(double &x, double re, double)
{
    x = re;
}
void set_in(std::complex<double> &x, double re, double im)
{
    x = std::complex<double>(re, im);
}
double perturbed(double x, double dre, double)
{
    return x + dre;
}
std::complex<double> perturbed(std::complex<double> x, double dre, double dim)
{
    return x + std::complex<double>(dre, dim);
}
bool has_atan2(const Basic &b)
{
    if (is_a<ATan2>(b))
        return true;
    for (auto &a : b.get_args())
        if (has_atan2(*a))
            return true;
    return false;
}
RCP<const Basic> as_basic(double a)
{
    return real_double(a);
}
RCP<const Basic> as_basic(std::complex<double> a)
{
    return complex_double(a);
}
bool ref_value(const Basic &b, const vec_basic &syms,
               const std::vector<double> &x, double &out)
{
    simref::RealEnv env;
    for (size_t i = 0; i < syms.size(); i++)
        env[down_cast<const Symbol &>(*syms[i]).get_name()] = x[i];
    out = simref::reval(b, env);
    return true;
}
bool ref_value(const Basic &b, const vec_basic &syms,
               const std::vector<std::complex<double>> &x,
               std::complex<double> &out)
{
    simref::ComplexEnv env;
    for (size_t i = 0; i < syms.size(); i++)
        env[down_cast<const Symbol &>(*syms[i]).get_name()] = x[i];
    out = simref::ceval(b, env);
    return true;
}

// every subexpression that can be an evaluator output (sets are skipped but
// looked into): used to find NaN / infinite intermediates, where max/min,
// sign, relationals and Piecewise legitimately depend on evaluation order and
// where eval_double(subs) switches to complex arithmetic
void collect_sub(const RCP<const Basic> &e, vec_basic &out, set_basic &seen)
{
    if (!seen.insert(e).second)
        return;
    if (!is_a_Set(*e))
        out.push_back(e);
    for (auto &a : e->get_args())
        collect_sub(a, out, seen);
}

template <class V>
std::string try_init(V &v, const vec_basic &in, const vec_basic &out, bool cse,
                     bool single)
{
    try {
        if (single && out.size() == 1)
            v.init(in, *out[0], cse);
        else
            v.init(in, out, cse);
        return "ok";
    } catch (const SymEngineException &e) {
        return "throw:" + demangle(typeid(e).name());
    }
}

template <class V, class T>
void do_init(Run &run, Slot<V, T> &s, const Json &o)
{
    simx::Pool pool;
    vec_basic outputs, inputs;
    try {
        const Json &pl = o.at("pool");
        for (size_t i = 0; i < pl.size(); i++)
            pool.push_back(simx::build(pl[i], pool));
        const Json &outs = o.at("outputs");
        for (size_t i = 0; i < outs.size(); i++)
            outputs.push_back(simx::build(outs[i], pool));
    } catch (const SymEngineException &e) {
        run.ev(std::string("init unbuildable: ") + e.what());
        run.probe("recipe_unbuildable");
        return;
    } catch (const simx::BuildError &e) {
        run.ev(std::string("init unbuildable: ") + e.what());
        run.probe("recipe_unbuildable");
        return;
    }
    if (outputs.empty())
        outputs.push_back(integer(1));
    unsigned nin = 1 + (unsigned)((o.geti("nin", 1) + 7) % 8);
    for (unsigned i = 0; i < nin; i++)
        inputs.push_back(simx::sym_n(i));
    {
        const Json &ex = o.at("extra_inputs");
        for (size_t i = 0; i < ex.size() && i < 4; i++) {
            RCP<const Basic> sy = symbol(ex[i].s.empty() ? std::string("x0") : ex[i].s);
            bool dup = false;
            for (auto &q : inputs)
                if (eq(*q, *sy))
                    dup = true;
            if (!dup) {
                inputs.push_back(sy);
                run.probe("input_named_like_cse_temporary");
            }
        }
    }
    bool cse = o.at("cse").as_bool();
    bool single = o.at("single").as_bool();
    if (!s.v)
        s.v.reset(new V());
    bool was_ready = s.ready;
    bool prev_cse = s.cse;
    size_t prev_nout = s.outputs.size();
    // a fresh evaluator is the reference for the outcome of init itself
    std::unique_ptr<V> fresh(new V());
    std::string want = try_init(*fresh, inputs, outputs, cse, single);
    std::string got = try_init(*s.v, inputs, outputs, cse, single);
    run.ev("init nin=" + std::to_string(nin) + " nout="
           + std::to_string(outputs.size()) + " cse=" + (cse ? "1" : "0")
           + " -> " + got);
    if (got != want) {
        run.fail("init-outcome-differs-from-fresh",
                 "re-initialised evaluator: " + got + ", fresh evaluator: "
                     + want + " (outputs[0]=" + outputs[0]->__str__() + ")");
        return;
    }
    if (got != "ok") {
        run.probe("failed_init");
        s.ready = false; // state after a failed init is not judged
        return;
    }
    if (was_ready) {
        run.probe("reinit");
        if (prev_cse && !cse)
            run.probe("reinit_cse_on_to_off");
        if (!prev_cse && cse)
            run.probe("reinit_cse_off_to_on");
        if (outputs.size() < prev_nout)
            run.probe("reinit_fewer_outputs");
        if (outputs.size() > prev_nout)
            run.probe("reinit_more_outputs");
    } else if (s.inputs.size())
        run.probe("reinit_after_failed_init_or_move");
    s.fresh = std::move(fresh);
    s.twin.reset(new V());
    if (try_init(*s.twin, inputs, outputs, !cse, false) != "ok")
        s.twin.reset();
    {
        vec_basic subs;
        set_basic seen;
        for (auto &e : outputs)
            collect_sub(e, subs, seen);
        s.sub.reset(new V());
        s.nsub = subs.size();
        if (try_init(*s.sub, inputs, subs, false, false) != "ok")
            s.sub.reset();
    }
    s.inputs = inputs;
    s.outputs = outputs;
    s.cse = cse;
    s.ready = true;
}

template <class V, class T>
void do_call(Run &run, Slot<V, T> &s, const Json &o, unsigned &judged)
{
    if (!s.ready || !s.v) {
        run.ev("call skipped (evaluator not initialised)");
        return;
    }
    size_t nin = s.inputs.size(), nout = s.outputs.size();
    std::vector<T> x(nin);
    const Json &jx = o.at("x");
    for (size_t i = 0; i < nin; i++) {
        double re = jx.size() ? jx[i % jx.size()].as_double() : 0.5;
        double im = jx.size() ? jx[(i + 3) % jx.size()].as_double() : 0.25;
        if (im == 0.0)
            im = 0.375;
        set_in(x[i], re, im);
    }
    std::vector<T> got(nout), want(nout), tw(nout);
    s.v->call(got.data(), x.data());
    s.fresh->call(want.data(), x.data());
    std::string line = "call ->";
    for (size_t i = 0; i < nout; i++)
        line += " " + show(got[i]);
    run.ev(line);
    for (size_t i = 0; i < nout; i++)
        if (!same_bits(got[i], want[i])) {
            run.fail("reinit-differs-from-fresh",
                     "output " + std::to_string(i) + " ("
                         + s.outputs[i]->__str__() + "): re-initialised "
                         + "evaluator gives " + show(got[i])
                         + ", fresh evaluator gives " + show(want[i]));
            return;
        }
    judged++;
    // ---- value oracles, only where the point is well-conditioned
    std::vector<std::vector<T>> pert;
    const double dl = 1e-9;
    for (int q = 0; q < 4; q++) {
        std::vector<T> xp(x);
        for (size_t i = 0; i < nin; i++) {
            double sgn = q == 0 ? 1 : q == 1 ? -1 : ((i + q) % 2 ? 1 : -1);
            // complex inputs are also moved off the real axis, in both
            // directions, so that branch cuts show up as instability
            xp[i] = perturbed(x[i], sgn * dl * (1.0 + mag(x[i])),
                              ((q + i) % 2 ? 1 : -1) * dl * (1.0 + mag(x[i])));
        }
        std::vector<T> r(nout);
        s.fresh->call(r.data(), xp.data());
        pert.push_back(r);
    }
    if (s.twin)
        s.twin->call(tw.data(), x.data());
    // domain guard: all intermediates finite at x and at the perturbed points
    {
        bool clean = (bool)s.sub;
        if (clean) {
            std::vector<T> sv(s.nsub);
            s.sub->call(sv.data(), x.data());
            for (auto &v : sv)
                if (!finite(v) || mag(v) > 1e12)
                    clean = false;
        }
        if (!clean) {
            run.probe("value_oracle_skipped_nonfinite_intermediate");
            return;
        }
    }
    for (size_t i = 0; i < nout; i++) {
        if (!finite(want[i]) || mag(want[i]) > 1e12) {
            run.probe("value_oracle_skipped_nonfinite");
            continue;
        }
        double scale = std::max(1.0, mag(want[i]));
        bool stable = true;
        for (auto &r : pert)
            if (!finite(r[i]) || mag(r[i] - want[i]) > 1e-6 * scale)
                stable = false;
        if (!stable) {
            run.probe("value_oracle_skipped_ill_conditioned");
            continue;
        }
        // the reference evaluation first: it also tells whether some
        // subexpression sits on a branch cut, where no value is judged
        T ref;
        bool have = false;
        simref::cut_hits() = 0;
        try {
            have = ref_value(*s.outputs[i], s.inputs, x, ref);
        } catch (const simref::RefUnsupported &) {
            have = false;
        }
        if (simref::cut_hits()) {
            run.probe("value_oracle_skipped_on_branch_cut");
            continue;
        }
        if (s.twin) {
            if (!finite(tw[i]) || mag(tw[i] - want[i]) > 1e-6 * scale) {
                // atan2 re-evaluates when cse() rebuilds it from replacement
                // symbols (known finding); keep that case apart from every
                // other way CSE could change a result
                run.fail(std::string("cse-changes-result")
                             + (has_atan2(*s.outputs[i]) ? ":output-has-atan2"
                                                         : ""),
                         "output " + std::to_string(i) + " ("
                             + s.outputs[i]->__str__() + "): cse="
                             + (s.cse ? "on " : "off ") + show(want[i])
                             + " vs flipped " + show(tw[i]));
                return;
            }
            run.probe("cse_on_off_compared");
        }
        if (!have || !finite(ref)) {
            run.probe("reference_unavailable");
            continue;
        }
        if (mag(ref - want[i]) > 1e-6 * scale) {
            run.fail("value-differs-from-reference",
                     "output " + std::to_string(i) + " ("
                         + s.outputs[i]->__str__() + ") at x[0]=" + show(x[0])
                         + ": lambda gives " + show(want[i])
                         + ", the reference evaluation of the tree gives " + show(ref));
            return;
        }
        run.probe("compared_with_reference_evaluation");
    }
}

template <class V, class T>
void do_move(Run &run, Slot<V, T> &from, Slot<V, T> &to, bool same,
             const std::string &how)
{
    if (!from.v) {
        run.ev("move skipped (no evaluator)");
        return;
    }
    if (same) { // move-construct a new object and put it back in place
        std::unique_ptr<V> nv(new V(std::move(*from.v)));
        from.v = std::move(nv);
        run.ev("move-construct in place");
        run.probe("moved");
        return;
    }
    if (how == "construct" || !to.v) {
        to.v.reset(new V(std::move(*from.v)));
    } else {
        *to.v = std::move(*from.v);
    }
    to.fresh = std::move(from.fresh);
    to.twin = std::move(from.twin);
    to.sub = std::move(from.sub);
    to.nsub = from.nsub;
    to.inputs = from.inputs;
    to.outputs = from.outputs;
    to.cse = from.cse;
    to.ready = from.ready;
    // the moved-from evaluator stays in its slot and may be re-initialised
    from.ready = false;
    run.ev("move " + how);
    run.probe("moved");
}

void exec(Run &run)
{
    Slot<LambdaRealDoubleVisitor, double> rs[NSLOT];
    Slot<LambdaComplexDoubleVisitor, std::complex<double>> cs[NSLOT];
    const Json &kinds = run.plan.at("config").at("kinds");
    unsigned nobj = (unsigned)kinds.size();
    if (nobj < 1 || nobj > (unsigned)NSLOT)
        nobj = 1;
    auto is_c = [&](unsigned k) {
        return kinds.size() > k && kinds[k].s == "complex";
    };
    const Json &ops = run.plan.at("ops");
    unsigned judged = 0;
    std::string pol = run.plan.at("config").gets("policy", "system");
    simalloc::configure(pol == "lifo"     ? simalloc::LIFO
                        : pol == "fifo"   ? simalloc::FIFO
                        : pol == "random" ? simalloc::RANDOM
                                          : simalloc::SYSTEM,
                        (uint64_t)run.plan.at("config").geti("alloc_seed", 1), (size_t)256 << 20,
                        (size_t)2 << 30);
    struct Off {
        ~Off()
        {
            simalloc::deactivate();
        }
    } off;
    run.fault("alloc_policy_" + pol);
    for (size_t k = 0; k < ops.size() && !run.failed(); k++) {
        const Json &o = ops[k];
        std::string op = o.gets("op");
        unsigned ev = (unsigned)(o.geti("ev") % nobj);
        if (op == "call" && o.has("again"))
            run.probe("call_at_the_previous_point_again");
        run.steps++;
        if (op == "init") {
            if (is_c(ev))
                do_init(run, cs[ev], o);
            else
                do_init(run, rs[ev], o);
        } else if (op == "call") {
            if (is_c(ev))
                do_call(run, cs[ev], o, judged);
            else
                do_call(run, rs[ev], o, judged);
        } else if (op == "move") {
            unsigned to = (unsigned)(o.geti("to") % nobj);
            if (is_c(ev) != is_c(to))
                to = ev;
            if (is_c(ev))
                do_move(run, cs[ev], cs[to], to == ev, o.gets("how"));
            else
                do_move(run, rs[ev], rs[to], to == ev, o.gets("how"));
        }
    }
    run.nontrivial = judged >= 2 && run.counters.count("probe.reinit");
}

} // namespace

int main(int argc, char **argv)
{
    Check c = {"C13", 13, gen, exec, nullptr};
    return harness_main(argc, argv, c);
}
