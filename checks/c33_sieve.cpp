// C33: the prime sieve yields exactly the primes after any call history.
//
// Simulation: 2-5 cooperative logical clients (iterator holders,
// generate_primes callers, cache clearers, knob changers, library functions
// that consult the sieve) share the process-global sieve; the seeded plan is
// the interleaving of their single steps. Reference model: an independent
// prime table + per-iterator (index, limit).
#include "../sim/harness.h"
#include "../sim/alloc_seam.h"
#include <symengine/prime_sieve.h>
#include <symengine/ntheory.h>
#include <symengine/ntheory_funcs.h>
#include <symengine/integer.h>
#include <memory>
#include <algorithm>

using namespace sim;
using SymEngine::Sieve;

SIM_SANITIZER_DEFAULTS()

namespace
{

// ---------------- independent reference: plain sieve of Eratosthenes -------
const unsigned REF_MAX = 40000000; // thorough limits go to 3e6; iterators
                                   // extend to 2x their last prime
std::vector<unsigned> REF; // all primes <= REF_MAX
std::vector<unsigned> PI_AT; // unused (computed on demand by upper_bound)

// (not instrumented: 40 million byte stores under ASan cost seconds per process)
__attribute__((no_sanitize("address", "undefined"))) void build_ref()
{
    if (!REF.empty())
        return;
    // odd numbers only: comp[k] stands for 2k+1 (independent of the library:
    // a plain sieve of Eratosthenes, one byte per odd number)
    const unsigned half = REF_MAX / 2 + 1;
    unsigned char *comp = (unsigned char *)calloc(half, 1);
    unsigned *out = (unsigned *)malloc(2600000 * sizeof(unsigned));
    size_t cnt = 0;
    out[cnt++] = 2;
    for (unsigned k = 1; k < half; k++) {
        if (comp[k])
            continue;
        uint64_t n = 2 * (uint64_t)k + 1;
        if (n > REF_MAX)
            break;
        out[cnt++] = (unsigned)n;
        if (n * n <= REF_MAX)
            for (uint64_t m = n * n / 2; m < half; m += n)
                comp[m] = 1;
    }
    REF.assign(out, out + cnt);
    free(out);
    free(comp);
}
size_t ref_count_upto(unsigned limit)
{
    return std::upper_bound(REF.begin(), REF.end(), limit) - REF.begin();
}

const unsigned SIZES[] = {1, 2, 3, 4, 8, 16, 32, 64};
const int NSLOT = 5;

// ---------------- plan generation ------------------------------------------
unsigned pick_limit(Rng &g, unsigned maxlim, const std::vector<unsigned> &sizes)
{
    switch (g.below(10)) {
        case 0: {
            static const unsigned small[]
                = {0, 1, 2, 3, 4, 10, 28, 29, 30, 31, 32, 100, 121, 169};
            return small[g.below(sizeof small / sizeof small[0])];
        }
        case 1:
        case 2:
        case 3: {
            // around a segment boundary start + 2*segment*m (+-3), with
            // start = 30 (fresh cache) or one past some cached prime
            unsigned k = sizes[g.below(sizes.size())];
            uint64_t seg2 = (uint64_t)k * 1024 * 8 * 2;
            uint64_t m = 1 + g.below(1 + maxlim / seg2);
            uint64_t start = g.chance(1, 2) ? 30 : (REF[g.below(3000)] + 1);
            int64_t v = (int64_t)(start + seg2 * m) + g.range(-3, 3);
            if (v < 0)
                v = 0;
            if ((uint64_t)v > maxlim)
                v = maxlim - g.below(50);
            return (unsigned)v;
        }
        case 4: // exactly a prime or a prime +-1
            return REF[g.below(ref_count_upto(maxlim))] + (unsigned)g.range(0, 2)
                   - 1;
        case 5:
            return (unsigned)g.below(2000);
        case 6: { // squares of primes: sqrt_limit recursion boundary
            unsigned p = REF[g.below(ref_count_upto((unsigned)std::sqrt((double)maxlim)))];
            return p * p + (unsigned)g.range(0, 2) - 1;
        }
        default:
            return (unsigned)g.below(maxlim + 1);
    }
}

Json gen(uint64_t seed, const std::string &tier)
{
    build_ref();
    Rng g(seed);
    const bool thorough = tier == "thorough";
    Json plan = Json::object();
    // ---- swarm configuration of this run
    unsigned maxlim = thorough ? (g.chance(1, 4) ? 3000000u : 600000u)
                               : (g.chance(1, 8) ? 600000u : 300000u);
    std::vector<unsigned> sizes;
    {
        // a subset of sieve sizes in play for this run; small ones are the
        // interesting ones for bounded limits
        unsigned n = 1 + g.below(3);
        for (unsigned i = 0; i < n; i++)
            sizes.push_back(SIZES[g.chance(2, 3) ? g.below(4) : g.below(8)]);
    }
    unsigned nslots = 1 + g.below(NSLOT);
    unsigned nops = 4 + g.below(thorough ? 60 : 40);
    // workload mix weights: gen, it_new, it_next, it_del, clear, set_clear,
    // set_size, libclient
    std::vector<unsigned> w = {6, 4, 10, 3, 2, 2, 3, 3};
    for (auto &x : w)
        if (g.chance(1, 5))
            x = g.chance(1, 2) ? 0 : x * 3;
    if (w[0] + w[2] == 0)
        w[2] = 5;
    Json cfg = Json::object();
    cfg["maxlim"] = maxlim;
    cfg["nslots"] = nslots;
    Json js = Json::array();
    for (auto s : sizes)
        js.push(Json(s));
    cfg["sizes"] = js;
    plan["config"] = cfg;

    Json ops = Json::array();
    if (g.chance(1, 2)) { // start from a non-default knob setting
        Json o = Json::object();
        o["op"] = "set_size";
        o["k"] = sizes[0];
        ops.push(o);
    }
    if (g.chance(1, 3)) {
        Json o = Json::object();
        o["op"] = "set_clear";
        o["v"] = false;
        ops.push(o);
    }
    // swarm: how often an allocation fails inside a sieve operation (0 = never)
    unsigned fail_share = g.chance(1, 2) ? 0 : 1 + (unsigned)g.below(3);
    for (unsigned i = 0; i < nops; i++) {
        Json o = Json::object();
        switch (g.weighted(w)) {
            case 0:
                o["op"] = "gen";
                o["limit"] = pick_limit(g, maxlim, sizes);
                if (g.below(8) < fail_share)
                    o["alloc_fail"] = (unsigned)(1 + g.below(g.chance(1, 2) ? 3 : 24));
                break;
            case 1:
                o["op"] = "it_new";
                o["it"] = (unsigned)g.below(nslots);
                o["limit"] = g.chance(1, 3) ? 0u : pick_limit(g, maxlim, sizes);
                break;
            case 2: {
                o["op"] = "it_next";
                o["it"] = (unsigned)g.below(nslots);
                unsigned n;
                switch (g.below(6)) {
                    case 0:
                        n = 1;
                        break;
                    case 1:
                        n = 1 + g.below(12);
                        break;
                    case 2:
                        n = 1 + g.below(300);
                        break;
                    case 3:
                        n = 1500 + g.below(3000); // crosses size-1 segments
                        break;
                    case 4:
                        n = thorough ? 1 + g.below(60000) : 1 + g.below(20000);
                        break;
                    default:
                        n = 1 + g.below(40);
                }
                o["n"] = n;
                if (g.below(8) < fail_share)
                    o["alloc_fail"] = (unsigned)(1 + g.below(4));
                if (g.chance(1, 1000)) {
                    // one very long walk on an unbounded iterator: more than
                    // 2^20 primes from a single iterator object
                    Json mk = Json::object();
                    mk["op"] = "it_new";
                    mk["it"] = o["it"];
                    mk["limit"] = 0u;
                    ops.push(mk);
                    o["n"] = 1049000u + (unsigned)g.below(3000);
                    o["alloc_fail"] = 0u;
                }
                break;
            }
            case 3:
                if (g.chance(1, 3)) {
                    // iterators are values: copy-assign one slot from another
                    // (or from a temporary: the "start again" idiom)
                    o["op"] = "it_assign";
                    o["it"] = (unsigned)g.below(nslots);
                    o["from"] = (unsigned)g.below(nslots);
                    o["fresh"] = g.chance(1, 3);
                    o["limit"] = g.chance(1, 3) ? 0u : pick_limit(g, maxlim, sizes);
                    break;
                }
                o["op"] = "it_del";
                o["it"] = (unsigned)g.below(nslots);
                if (g.below(8) < fail_share)
                    o["alloc_fail"] = (unsigned)(1 + g.below(2));
                break;
            case 4:
                if (g.below(8) < fail_share)
                    o["alloc_fail"] = (unsigned)(1 + g.below(2));
                o["op"] = "clear";
                break;
            case 5:
                o["op"] = "set_clear";
                o["v"] = g.chance(1, 2);
                break;
            case 6:
                o["op"] = "set_size";
                o["k"] = sizes[g.below(sizes.size())];
                break;
            default: {
                static const char *fn[] = {"primepi", "prime_factors",
                                           "prime_factor_multiplicities",
                                           "factor_trial_division", "mobius"};
                o["op"] = "lib";
                o["fn"] = fn[g.below(5)];
                uint64_t n;
                if (g.chance(1, 3))
                    n = 1 + g.below(5000);
                else if (g.chance(1, 2))
                    n = 1 + g.below(maxlim);
                else { // product of two primes around a boundary: sqrt(n)
                       // becomes the iterator limit
                    uint64_t a = REF[g.below(ref_count_upto(
                        std::min(maxlim, 70000u)))];
                    uint64_t b = REF[g.below(ref_count_upto(
                        std::min(maxlim, 70000u)))];
                    n = a * b;
                }
                o["n"] = (long long)n;
                break;
            }
        }
        ops.push(o);
    }
    plan["ops"] = ops;
    return plan;
}

// ---------------- execution ------------------------------------------------
struct ItModel {
    std::unique_ptr<Sieve::iterator> it;
    size_t index = 0;
    unsigned limit = 0;
    bool stale = false; // cache was cleared below our index since last step
};

struct World {
    ItModel slots[NSLOT];
    unsigned size_k = 32;
    bool clear_flag = true;
    unsigned nsizes_seen = 1;
    unsigned last_size = 32;
    uint64_t cached_hint = 10; // model-level lower bound of cached primes
};

void on_cache_cleared(World &w)
{
    for (auto &s : w.slots)
        if (s.it && s.index > 10)
            s.stale = true;
    w.cached_hint = 10;
}

std::string brute_factors(uint64_t n, std::vector<std::pair<uint64_t, unsigned>> &out)
{
    std::string s;
    for (uint64_t p = 2; p * p <= n; p++) {
        unsigned c = 0;
        while (n % p == 0) {
            n /= p;
            c++;
        }
        if (c)
            out.emplace_back(p, c);
    }
    if (n > 1)
        out.emplace_back(n, 1);
    for (auto &f : out)
        s += std::to_string(f.first) + "^" + std::to_string(f.second) + " ";
    return s;
}

void exec(Run &run)
{
    build_ref();
    World w;
    // every run starts from the same global sieve state, whatever ran before
    // in this process
    Sieve::set_clear(true);
    Sieve::set_sieve_size(32);
    Sieve::clear();

    const Json &ops = run.plan.at("ops");
    unsigned nslots = (unsigned)run.plan.at("config").geti("nslots", NSLOT);
    if (nslots < 1 || nslots > (unsigned)NSLOT)
        nslots = NSLOT;
    unsigned stale_steps = 0, boundary_gens = 0;

    for (size_t k = 0; k < ops.size() && !run.failed(); k++) {
        const Json &o = ops[k];
        const std::string op = o.gets("op");
        run.steps++;
        if (op == "gen") {
            unsigned limit = (unsigned)o.geti("limit");
            if (limit > REF_MAX / 2)
                limit = REF_MAX / 2;
            std::vector<unsigned> v;
            unsigned af = (unsigned)o.geti("alloc_fail");
            if (af) {
                // fault: the af-th allocation inside the call fails, as on a
                // machine that runs out of memory; the call may throw
                // std::bad_alloc - what it leaves behind in the shared cache
                // must still be a valid state for everybody else
                simalloc::fail_after(af);
                bool threw = false;
                try {
                    Sieve::generate_primes(v, limit);
                } catch (const std::bad_alloc &) {
                    threw = true;
                }
                simalloc::fail_after(0);
                // Whether the af-th allocation exists at all depends on the
                // capacity the library's cache vector has kept from earlier
                // runs of this process, which is not part of the plan: the
                // event log says only that the fault was armed, so that the
                // trace of a run stays a function of its plan.
                run.ev("gen " + std::to_string(limit) + " with allocation fault armed");
                if (threw) {
                    run.fault("allocation_failed_inside_generate_primes");
                    on_cache_cleared(w); // the model knows nothing about the cache now
                    continue;
                }
            } else
                Sieve::generate_primes(v, limit);
            size_t want = ref_count_upto(limit);
            uint64_t seg2 = (uint64_t)w.size_k * 1024 * 8 * 2;
            if (limit > 30 + seg2) {
                run.probe("gen_crosses_segment_boundary");
                boundary_gens++;
            }
            if (!af)
                run.ev("gen " + std::to_string(limit) + " -> n="
                       + std::to_string(v.size()) + " last="
                       + (v.empty() ? std::string("-") : std::to_string(v.back())));
            if (v.size() != want
                || !std::equal(v.begin(), v.end(), REF.begin())) {
                // classify: duplicate / missing / extra / order
                size_t i = 0;
                while (i < v.size() && i < want && v[i] == REF[i])
                    i++;
                std::string kind = "wrong";
                if (i < v.size() && i > 0 && v[i] == v[i - 1])
                    kind = "duplicate";
                else if (i < v.size() && i < want && v[i] > REF[i])
                    kind = "missing";
                else if (i < v.size() && i < want && v[i] < REF[i])
                    kind = "not-prime-or-out-of-order";
                else if (i == want && v.size() > want)
                    kind = "beyond-limit";
                else if (i == v.size() && v.size() < want)
                    kind = "truncated";
                run.fail("generate_primes:" + kind,
                         "generate_primes(limit=" + std::to_string(limit)
                             + ") differs from the prime table at position "
                             + std::to_string(i) + ": got "
                             + (i < v.size() ? std::to_string(v[i]) : "end")
                             + " expected "
                             + (i < want ? std::to_string(REF[i]) : "end")
                             + " (sieve size " + std::to_string(w.size_k)
                             + ")");
            }
            w.cached_hint = std::max<uint64_t>(w.cached_hint, want);
            if (w.clear_flag)
                on_cache_cleared(w);
        } else if (op == "it_new") {
            ItModel &s = w.slots[o.geti("it") % nslots];
            if (s.it) {
                s.it.reset();
                if (w.clear_flag)
                    on_cache_cleared(w);
            }
            unsigned limit = (unsigned)o.geti("limit");
            if (limit > REF_MAX / 2)
                limit = REF_MAX / 2;
            if (limit == 0)
                s.it.reset(new Sieve::iterator());
            else
                s.it.reset(new Sieve::iterator(limit));
            s.index = 0;
            s.limit = limit;
            s.stale = false;
            run.ev("it_new " + std::to_string(o.geti("it") % nslots) + " limit="
                   + std::to_string(limit));
        } else if (op == "it_next") {
            unsigned slot = (unsigned)(o.geti("it") % nslots);
            ItModel &s = w.slots[slot];
            if (!s.it) {
                run.ev("it_next " + std::to_string(slot) + " (no iterator)");
                continue;
            }
            unsigned n = (unsigned)o.geti("n", 1);
            uint64_t h = 0;
            unsigned last = 0, taken = 0;
            for (unsigned j = 0; j < n && !run.failed(); j++) {
                // bound unbounded iterators by the reference table
                if (s.index + 1 >= REF.size() / 2)
                    break;
                if (s.stale) {
                    run.probe("iterator_stepped_after_cache_cleared");
                    stale_steps++;
                    s.stale = false;
                }
                unsigned v;
                if (j == 0 && o.geti("alloc_fail")) {
                    simalloc::fail_after((uint64_t)o.geti("alloc_fail"));
                    bool threw = false;
                    try {
                        v = s.it->next_prime();
                    } catch (const std::bad_alloc &) {
                        threw = true;
                    }
                    simalloc::fail_after(0);
                    if (threw) {
                        // the extension failed before the iterator advanced:
                        // the same step is asked for again, without a fault
                        // (so the values logged do not depend on whether the
                        // fault found an allocation to fail, see "gen")
                        run.fault("allocation_failed_inside_next_prime");
                        v = s.it->next_prime();
                    }
                } else
                    v = s.it->next_prime();
                unsigned want = REF[s.index];
                taken++;
                last = v;
                h = h * 1000003u + v;
                if (v == want) {
                    s.index++;
                    if (s.limit && want > s.limit)
                        run.probe("bounded_iterator_past_limit_from_cache");
                } else if (s.limit && want > s.limit && v == s.limit + 1) {
                    run.probe("bounded_iterator_exhausted");
                    // stays exhausted; no need to keep asking
                    if (j > 2)
                        break;
                } else {
                    std::string kind = v < want       ? "repeat-or-nonprime"
                                       : s.limit && v == s.limit + 1
                                           ? "early-end"
                                           : "gap";
                    run.fail("iterator:" + kind,
                             "iterator(limit=" + std::to_string(s.limit)
                                 + ") call #" + std::to_string(s.index + 1)
                                 + " returned " + std::to_string(v)
                                 + ", expected " + std::to_string(want)
                                 + (s.limit && want > s.limit
                                        ? " or " + std::to_string(s.limit + 1)
                                        : ""));
                }
            }
            w.cached_hint = std::max<uint64_t>(w.cached_hint, s.index);
            run.ev("it_next " + std::to_string(slot) + " x"
                   + std::to_string(taken) + " last=" + std::to_string(last)
                   + " h=" + std::to_string(h));
        } else if (op == "it_assign") {
            unsigned slot = (unsigned)(o.geti("it") % nslots);
            unsigned from = (unsigned)(o.geti("from") % nslots);
            ItModel &s = w.slots[slot];
            if (!s.it) {
                run.ev("it_assign (no target)");
                continue;
            }
            if (o.at("fresh").as_bool() || !w.slots[from].it) {
                unsigned limit = (unsigned)o.geti("limit");
                if (limit > REF_MAX / 2)
                    limit = REF_MAX / 2;
                // assignment from a temporary, which is destroyed right away
                *s.it = limit ? Sieve::iterator(limit) : Sieve::iterator();
                s.index = 0;
                s.limit = limit;
                if (w.clear_flag)
                    on_cache_cleared(w);
                run.ev("it_assign " + std::to_string(slot) + " = fresh(limit=" + std::to_string(limit) + ")");
            } else {
                *s.it = *w.slots[from].it;
                s.index = w.slots[from].index;
                s.limit = w.slots[from].limit;
                run.ev("it_assign " + std::to_string(slot) + " = " + std::to_string(from));
            }
            s.stale = false;
            run.probe("iterator_copy_assigned");
        } else if (op == "it_del") {
            unsigned slot = (unsigned)(o.geti("it") % nslots);
            ItModel &s = w.slots[slot];
            if (s.it) {
                simalloc::fail_after((uint64_t)o.geti("alloc_fail"));
                s.it.reset();
                simalloc::fail_after(0);
                if (w.clear_flag)
                    on_cache_cleared(w);
                run.ev("it_del " + std::to_string(slot));
            }
        } else if (op == "clear") {
            simalloc::fail_after((uint64_t)o.geti("alloc_fail"));
            try {
                Sieve::clear();
            } catch (const std::bad_alloc &) {
                run.fault("allocation_failed_inside_clear");
            }
            simalloc::fail_after(0);
            on_cache_cleared(w);
            run.ev("clear");
        } else if (op == "set_clear") {
            w.clear_flag = o.at("v").as_bool();
            Sieve::set_clear(w.clear_flag);
            run.ev(std::string("set_clear ") + (w.clear_flag ? "1" : "0"));
        } else if (op == "set_size") {
            unsigned kk = (unsigned)o.geti("k", 32);
            if (kk == 0 || kk > 64)
                kk = 32; // 0 is an invalid argument, excluded
            if (kk != w.last_size) {
                w.nsizes_seen++;
                w.last_size = kk;
                if (w.cached_hint > 10)
                    run.probe("size_changed_with_warm_cache");
            }
            w.size_k = kk;
            Sieve::set_sieve_size(kk);
            run.ev("set_size " + std::to_string(kk));
        } else if (op == "lib") {
            std::string fn = o.gets("fn");
            uint64_t n = (uint64_t)o.geti("n", 1);
            if (n < 1)
                n = 1;
            std::string got, want;
            std::vector<std::pair<uint64_t, unsigned>> bf;
            try {
                if (fn == "primepi") {
                    if (n > REF_MAX / 2)
                        n = REF_MAX / 2;
                    got = SymEngine::primepi(SymEngine::integer((long)n))
                              ->__str__();
                    want = std::to_string(ref_count_upto((unsigned)n));
                } else if (fn == "prime_factors") {
                    std::vector<SymEngine::RCP<const SymEngine::Integer>> pf;
                    SymEngine::prime_factors(pf, *SymEngine::integer((long)n));
                    for (auto &p : pf)
                        got += p->__str__() + " ";
                    brute_factors(n, bf);
                    for (auto &f : bf)
                        for (unsigned c = 0; c < f.second; c++)
                            want += std::to_string(f.first) + " ";
                } else if (fn == "prime_factor_multiplicities") {
                    SymEngine::map_integer_uint m;
                    SymEngine::prime_factor_multiplicities(
                        m, *SymEngine::integer((long)n));
                    for (auto &p : m)
                        got += p.first->__str__() + "^"
                               + std::to_string(p.second) + " ";
                    want = brute_factors(n, bf);
                } else if (fn == "factor_trial_division") {
                    SymEngine::RCP<const SymEngine::Integer> f;
                    int r = SymEngine::factor_trial_division(
                        SymEngine::outArg(f), *SymEngine::integer((long)n));
                    brute_factors(n, bf);
                    bool composite
                        = bf.size() > 1 || (bf.size() == 1 && bf[0].second > 1);
                    // smallest prime factor iff composite
                    got = std::to_string(r)
                          + (r ? ":" + f->__str__() : std::string());
                    want = composite ? "1:" + std::to_string(bf[0].first) : "0";
                } else { // mobius
                    if (n < 1)
                        n = 1;
                    int mu = SymEngine::mobius(*SymEngine::integer((long)n));
                    brute_factors(n, bf);
                    int wmu = (bf.size() % 2) ? -1 : 1;
                    for (auto &f : bf)
                        if (f.second > 1)
                            wmu = 0;
                    got = std::to_string(mu);
                    want = std::to_string(wmu);
                }
            } catch (const SymEngine::SymEngineException &e) {
                got = std::string("exception: ") + e.what();
            }
            // every library client ends by destroying its private iterator
            if (w.clear_flag)
                on_cache_cleared(w);
            run.ev("lib " + fn + " " + std::to_string(n) + " -> " + got);
            if (got != want)
                run.fail("client:" + fn,
                         fn + "(" + std::to_string(n) + ") returned [" + got
                             + "], definition gives [" + want + "]");
        } else {
            run.ev("skip unknown op");
        }
        // abstract state reached (model level)
        unsigned live = 0, beyond = 0;
        size_t maxidx = 0;
        for (auto &s : w.slots)
            if (s.it) {
                live++;
                maxidx = std::max(maxidx, s.index);
                if (s.stale)
                    beyond = 1;
            }
        unsigned bucket = 0;
        for (uint64_t c = w.cached_hint; c > 10; c >>= 2)
            bucket++;
        unsigned ib = 0;
        for (size_t c = maxidx; c > 0; c >>= 2)
            ib++;
        uint64_t st = w.size_k | (uint64_t)w.clear_flag << 8
                      | (uint64_t)bucket << 9 | (uint64_t)live << 16
                      | (uint64_t)beyond << 20 | (uint64_t)ib << 21;
        run.state(st);
    }
    // tear down: iterators die here; restore defaults for the next run
    simalloc::fail_after(0);
    for (auto &s : w.slots)
        s.it.reset();
    simalloc::deactivate();
    Sieve::set_clear(true);
    Sieve::set_sieve_size(32);
    Sieve::clear();
    run.nontrivial = stale_steps > 0 || boundary_gens > 0 || w.nsizes_seen > 1;
}

} // namespace

int main(int argc, char **argv)
{
    Check c = {"C33", 33, gen, exec, build_ref};
    return harness_main(argc, argv, c);
}
