// Randomness seam: -Wl,--wrap=rand routes every std::rand() call made inside
// libsymengine.a (mp_randstate's constructor seeds GMP's generator with it)
// to __wrap_rand, which serves the seed list attached to the current plan
// operation. GMP's generator is deterministic given that seed, so the whole
// random-choice sequence of Zassenhaus / Shoup / Pollard / Tonelli-Shanks is
// decided by the plan.
#pragma once
#include <cstdint>
#include <stdexcept>
#include <vector>

namespace simrand
{
struct BudgetExceeded : std::runtime_error {
    BudgetExceeded() : std::runtime_error("rand() draw budget exceeded") {}
};

struct State {
    std::vector<int> list;
    size_t pos = 0;
    uint64_t fallback = 0x2545F4914F6CDD1DULL; // continues the list when exhausted
    uint64_t draws = 0;       // since set()
    uint64_t total_draws = 0; // since process start
    uint64_t budget = 0;      // 0 = unlimited
    // forced outcomes of GMP draws (mpz_urandomm), by draw index since set():
    // every value in [0, n) is a possible draw, so the code under test must
    // be right for the boundary ones too.  (index, mode): 0 -> 0, 1 -> 1,
    // 2 -> n-1, 3 -> n/2, 4 -> 2  (reduced modulo n)
    std::vector<std::pair<uint64_t, int>> forced;
    uint64_t gmp_draws = 0;   // since set()
    uint64_t gmp_budget = 4000; // draws of one call before it counts as not making progress
    uint64_t forced_fired = 0;
};
inline State &state()
{
    static State s;
    return s;
}
inline void set(const std::vector<int> &list, uint64_t budget)
{
    State &s = state();
    s.list = list;
    s.pos = 0;
    s.draws = 0;
    s.budget = budget;
    uint64_t h = 0x9e3779b97f4a7c15ULL;
    for (int v : list)
        h = (h ^ (uint64_t)(unsigned)v) * 0x100000001b3ULL;
    s.fallback = h | 1;
    s.forced.clear();
    s.gmp_draws = 0;
    s.forced_fired = 0;
}
inline void force(uint64_t draw_index, int mode)
{
    state().forced.emplace_back(draw_index, mode);
}
} // namespace simrand

extern "C" int __wrap_rand(void);
