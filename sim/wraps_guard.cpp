// Yield points for the non-TSan thread-safe build (ASan/UBSan): the add-only
// source hooks SYMENGINE_VERIF_SIM_POINT in front of refcount_/hash_ accesses,
// and the C++ ABI guards of function-local statics (link-time --wrap).
#include "sched.h"
#include <cstdint>

extern "C" {
// strong definition: overrides the weak empty default in libsymengine.a
void symengine_verif_sim_point(int kind, const void *addr)
{
    (void)kind;
    simsched::yield(kind >= 3 ? simsched::K_ATOMIC64 : simsched::K_HOOK, addr);
}

int __real___cxa_guard_acquire(uint64_t *g);
void __real___cxa_guard_release(uint64_t *g);
void __real___cxa_guard_abort(uint64_t *g);

int __wrap___cxa_guard_acquire(uint64_t *g)
{
    if (simsched::active_worker()) {
        bool complete = *(volatile unsigned char *)g != 0;
        simsched::guard_before_acquire(g, complete);
    }
    int r = __real___cxa_guard_acquire(g);
    if (r) {
        simsched::guard_acquired(g);
        simsched::yield(simsched::K_GUARD, g);
    }
    return r;
}
void __wrap___cxa_guard_release(uint64_t *g)
{
    __real___cxa_guard_release(g);
    simsched::guard_released(g);
}
void __wrap___cxa_guard_abort(uint64_t *g)
{
    __real___cxa_guard_abort(g);
    simsched::guard_released(g);
}
}
