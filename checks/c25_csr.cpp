// C25: sparse CSR matrices stay canonical and agree with dense ones.
//
// Simulation: a pool of <=4 mutable CSR matrices, each in lock step with a
// dense reference, driven through a seeded history of set/get/from_coo and of
// every operation that has a CSR implementation; steps on different pool
// members interleave. After every step: independent canonical-format check on
// the raw arrays + element-wise agreement with the dense reference.
#include "../sim/harness.h"
#include <symengine/matrix.h>
#include <symengine/add.h>
#include <symengine/mul.h>
#include <symengine/pow.h>
#include <symengine/complex.h>
#include <symengine/complex_double.h>
#include <symengine/real_double.h>
#include <cmath>
#include <symengine/rational.h>
#include <symengine/symbol.h>
#include <symengine/constants.h>
#include <symengine/functions.h>
#include <symengine/visitor.h>
#include <symengine/symengine_exception.h>

using namespace sim;
using namespace SymEngine;

SIM_SANITIZER_DEFAULTS()

namespace
{

const int NPOOL = 4;
const unsigned MAXDIM = 8;

std::vector<RCP<const Basic>> VALS;
size_t NEX = 0; // VALS[0..NEX) are exact values, the rest floating
RCP<const Symbol> SX, SY, SZ;

void build_vals()
{
    if (!VALS.empty())
        return;
    SX = symbol("x");
    SY = symbol("y");
    SZ = symbol("z");
    auto I2 = Complex::from_two_nums(*integer(2), *integer(3));
    VALS = {zero,
            one,
            minus_one,
            integer(2),
            integer(-2),
            integer(3),
            integer(7),
            Rational::from_two_ints(1, 2),
            Rational::from_two_ints(-1, 2),
            Rational::from_two_ints(5, 3),
            SX,
            neg(SX),
            SY,
            mul(integer(2), SX),
            mul(SX, SY),
            I,
            neg(I),
            I2,
            mul(I, SX),
            pow(SX, integer(2)),
            integer(-7),
            mul(integer(-2), SX),
            // powers with a literal zero base stay unevaluated: not zero
            // entries, whatever a zero test may think of their base
            pow(zero, SX),
            pow(zero, add(SX, SY))};
    NEX = VALS.size();
    // floating entries (only drawn by "floatmode" plans, which issue no
    // arithmetic operations): components are small multiples of 2^-600, so
    // every sum of them is exact in any order and never cancels, while
    // products and squared magnitudes underflow to 0.0 - a zero test that
    // goes through a product or a norm sees "zero" where the entry is not
    double t = std::ldexp(1.0, -600);
    VALS.push_back(complex_double(std::complex<double>(t, t)));
    VALS.push_back(complex_double(std::complex<double>(t, -t / 2)));
    VALS.push_back(complex_double(std::complex<double>(0.0, t)));
    VALS.push_back(real_double(t));
    VALS.push_back(complex_double(std::complex<double>(3 * t, 2 * t)));
    VALS.push_back(real_double(std::ldexp(1.0, -1060))); // subnormal
}
// VALS index of the additive inverse (for cancellation), or -1
int neg_index(int v)
{
    static const int tab[][2] = {{1, 2}, {3, 4}, {6, 20}, {7, 8}, {10, 11},
                                 {15, 16}, {13, 21}};
    for (auto &t : tab) {
        if (t[0] == v)
            return t[1];
        if (t[1] == v)
            return t[0];
    }
    return -1;
}

// ---------------- plan generation ------------------------------------------
Json gen(uint64_t seed, const std::string &tier)
{
    build_vals();
    Rng g(seed);
    bool thorough = tier == "thorough";
    Json plan = Json::object();
    unsigned npool = 1 + g.below(NPOOL);
    unsigned maxdim = 1 + g.below(MAXDIM);
    unsigned nops = 10 + g.below(thorough ? 160 : 110);
    // swarm: density of nonzeros and workload mix
    unsigned zero_w = 1 + g.below(6); // weight of choosing value 0 in set
    std::vector<unsigned> w = {30, 8, 6, 4, 3, 3, 6, 4, 5, 3, 3, 2, 2, 2, 3, 2};
    //  0 set 1 get 2 coo 3 new 4 transpose 5 conj/ctrans 6 binop 7 emul
    //  8 matmat 9 scale 10 diag 11 jac 12 notimpl 13 eq 14 copy 15 is_real
    for (auto &x : w)
        if (g.chance(1, 5))
            x = g.chance(1, 2) ? 0 : x * 3;
    // floatmode (own stream: the plans of other seeds stay what they were):
    // a share of the entries are tiny floating numbers and no operation that
    // does arithmetic on entries is issued, so the dense mirror is exact
    Rng gf(seed * 0x9E3779B97F4A7C15ull + 0x25f1);
    bool floatmode = gf.chance(1, 6);
    if (floatmode)
        w[6] = w[7] = w[8] = w[9] = w[11] = 0;
    auto fval = [&](int v) -> int {
        if (floatmode && gf.chance(1, 3))
            return (int)(NEX + gf.below(VALS.size() - NEX));
        return v;
    };
    // coordinate lists of a floatmode plan hold floating values only (and
    // not the subnormal one): a sum that mixes them with numbers of ordinary
    // size depends on the order of summation, which the property leaves open
    auto cooval = [&](int v) -> int {
        return floatmode ? (int)(NEX + gf.below(VALS.size() - NEX - 1)) : v;
    };
    if (w[0] + w[2] == 0)
        w[0] = 20;
    Json cfg = Json::object();
    cfg["npool"] = npool;
    cfg["maxdim"] = maxdim;
    if (floatmode)
        cfg["floatmode"] = true;
    plan["config"] = cfg;
    Json ops = Json::array();
    auto dim = [&]() { return 1 + (unsigned)g.below(maxdim); };
    auto val = [&]() -> int {
        if (g.below(10) < zero_w)
            return 0;
        return fval(1 + (int)g.below(NEX - 1));
    };
    auto coo_op = [&](unsigned m) {
        Json o = Json::object();
        o["op"] = "coo";
        o["m"] = m;
        unsigned r = dim(), c = dim();
        o["rows"] = r;
        o["cols"] = c;
        Json es = Json::array();
        unsigned n = g.below(r * c + 3);
        for (unsigned k = 0; k < n; k++) {
            Json e = Json::array();
            unsigned i = g.below(r), j = g.below(c);
            int v = cooval(1 + (int)g.below(NEX - 1));
            e.push(Json(i));
            e.push(Json(j));
            e.push(Json(v));
            es.push(e);
            if (g.chance(1, 4)) { // duplicate coordinate, sometimes cancelling
                Json e2 = Json::array();
                int v2 = g.chance(1, 2) && neg_index(v) >= 0 ? neg_index(v)
                                                             : val();
                e2.push(Json(i));
                e2.push(Json(j));
                e2.push(Json(cooval(v2 == 0 ? v : v2)));
                es.push(e2);
            }
        }
        // nearly ordered lists: row-major (or column-major) order with one
        // or two entries moved elsewhere - the shape a "the input is already
        // sorted" shortcut meets
        if (es.size() >= 3 && g.chance(1, 3)) {
            bool colmajor = g.chance(1, 4);
            std::stable_sort(es.a.begin(), es.a.end(), [&](const Json &x, const Json &y) {
                int64_t xi = x[colmajor ? 1 : 0].as_int(), yi = y[colmajor ? 1 : 0].as_int();
                int64_t xj = x[colmajor ? 0 : 1].as_int(), yj = y[colmajor ? 0 : 1].as_int();
                return xi != yi ? xi < yi : xj < yj;
            });
            unsigned moves = 1 + (unsigned)g.below(2);
            for (unsigned k = 0; k < moves; k++) {
                size_t from = (size_t)g.below(es.size());
                Json e = es[from];
                es.a.erase(es.a.begin() + (long)from);
                es.a.insert(es.a.begin() + (long)g.below(es.size() + 1), e);
            }
        }
        o["entries"] = es;
        return o;
    };
    // initial population
    for (unsigned m = 0; m < npool; m++)
        ops.push(coo_op(m));
    for (unsigned k = 0; k < nops; k++) {
        Json o = Json::object();
        unsigned m = g.below(npool);
        switch (g.weighted(w)) {
            case 0:
                o["op"] = "set";
                o["m"] = m;
                o["i"] = (unsigned)g.below(MAXDIM);
                o["j"] = (unsigned)g.below(MAXDIM);
                o["v"] = val();
                break;
            case 1:
                o["op"] = "get";
                o["m"] = m;
                o["i"] = (unsigned)g.below(MAXDIM);
                o["j"] = (unsigned)g.below(MAXDIM);
                break;
            case 2:
                o = coo_op(m);
                break;
            case 3:
                o["op"] = "new";
                o["m"] = m;
                o["rows"] = dim();
                o["cols"] = dim();
                break;
            case 4:
                o["op"] = "transpose";
                o["m"] = m;
                o["dst"] = (unsigned)g.below(npool);
                o["form"] = (unsigned)g.below(2);
                break;
            case 5:
                o["op"] = g.chance(1, 2) ? "conj" : "ctrans";
                o["m"] = m;
                o["dst"] = (unsigned)g.below(npool);
                break;
            case 6: {
                static const char *f[] = {"add", "sub", "mul"};
                o["op"] = "binop";
                o["a"] = m;
                o["b"] = (unsigned)g.below(npool);
                o["dst"] = (unsigned)g.below(npool);
                o["f"] = f[g.below(3)];
                // make shapes agree most of the time
                o["reshape"] = g.chance(3, 4);
                // write into a result object that already holds an earlier result
                o["reuse"] = g.chance(1, 3);
                break;
            }
            case 7:
                o["reuse"] = g.chance(1, 3);
                o["op"] = "emul";
                o["a"] = m;
                o["b"] = (unsigned)g.below(npool);
                o["dst"] = (unsigned)g.below(npool);
                o["reshape"] = g.chance(3, 4);
                break;
            case 8:
                o["op"] = "matmat";
                o["a"] = m;
                o["b"] = (unsigned)g.below(npool);
                o["dst"] = (unsigned)g.below(npool);
                o["reshape"] = g.chance(3, 4);
                break;
            case 9: {
                o["op"] = g.chance(1, 2) ? "scale_rows" : "scale_cols";
                o["m"] = m;
                Json vs = Json::array();
                for (unsigned q = 0; q < MAXDIM; q++)
                    vs.push(Json(g.chance(1, 25)
                                     ? 0
                                     : 1 + (int)g.below(NEX - 1)));
                o["vec"] = vs;
                break;
            }
            case 10:
                o["op"] = "diag";
                o["m"] = m;
                break;
            case 11: {
                o["op"] = "jac";
                o["dst"] = m;
                unsigned ne = dim(), nv = 1 + g.below(3);
                o["nvars"] = nv;
                o["dense_form"] = g.chance(1, 2);
                o["diff_cache"] = g.chance(1, 2);
                Json es = Json::array();
                for (unsigned q = 0; q < ne; q++) {
                    Json terms = Json::array();
                    unsigned nt = g.below(4);
                    for (unsigned t = 0; t < nt; t++) {
                        Json term = Json::array();
                        term.push(Json((int)g.range(-3, 3)));
                        term.push(Json((unsigned)g.below(3)));
                        term.push(Json((unsigned)g.below(3)));
                        term.push(Json((unsigned)g.below(2)));
                        terms.push(term);
                    }
                    es.push(terms);
                }
                o["exprs"] = es;
                break;
            }
            case 12: {
                static const char *f[]
                    = {"add_matrix", "mul_matrix", "add_scalar", "mul_scalar"};
                o["op"] = "notimpl";
                o["m"] = m;
                o["which"] = f[g.below(4)];
                break;
            }
            case 13:
                o["op"] = "eq";
                o["a"] = m;
                o["b"] = (unsigned)g.below(npool);
                break;
            case 14:
                o["op"] = "copy";
                o["m"] = m;
                o["dst"] = (unsigned)g.below(npool);
                break;
            default:
                o["op"] = "is_real";
                o["m"] = m;
        }
        ops.push(o);
    }
    plan["ops"] = ops;
    return plan;
}

// ---------------- execution ------------------------------------------------
struct Pair {
    CSRMatrix s;
    DenseMatrix d;
    bool valid = false;
    bool loose = false; // arrays may be longer than p_[rows] (after matmat)
    Pair() {}
    Pair(const Pair &o) : s(o.s), d(o.d), valid(o.valid), loose(o.loose) {}
    Pair &operator=(const Pair &o)
    {
        s = CSRMatrix(o.s); // CSRMatrix has move assignment only
        d = o.d;
        valid = o.valid;
        loose = o.loose;
        return *this;
    }
};

bool same_value(const RCP<const Basic> &a, const RCP<const Basic> &b)
{
    if (eq(*a, *b))
        return true;
    return eq(*expand(sub(a, b)), *zero);
}

// number of nodes of an expression tree, counted up to `cap`
size_t expr_size(const Basic &b, size_t cap)
{
    size_t n = 1;
    for (const auto &a : b.get_args()) {
        if (n >= cap)
            break;
        n += expr_size(*a, cap - n);
    }
    return n;
}

// Entries of pool members are kept small. Without this, repeated products of
// symbolic matrices square the size of the entries at every step and both the
// library and the expand()-based value oracle take unbounded time on a history
// that says nothing new about CSR structure. A member with an oversized entry
// is replaced - in its CSR and its dense form alike, through set() - by a
// matrix with the same sparsity pattern and small values chosen by position.
const size_t ENTRY_LIMIT = 40;

std::string canonical_problem(const CSRMatrix &m, bool loose)
{
    std::vector<unsigned> p, j;
    vec_basic x;
    std::tie(p, j, x) = m.as_vectors();
    unsigned rows = m.nrows(), cols = m.ncols();
    if (p.size() != (size_t)rows + 1)
        return "p_.size() != rows+1";
    if (p[0] != 0)
        return "p_[0] != 0";
    for (unsigned i = 0; i < rows; i++)
        if (p[i] > p[i + 1])
            return "p_ not monotone";
    if (!loose) {
        if (j.size() != p[rows])
            return "j_.size() != p_[rows]";
        if (x.size() != p[rows])
            return "x_.size() != p_[rows]";
    } else if (j.size() < p[rows] || x.size() < p[rows])
        return "arrays shorter than p_[rows]";
    for (unsigned i = 0; i < rows; i++)
        for (unsigned k = p[i]; k < p[i + 1]; k++) {
            if (j[k] >= cols)
                return "column index out of range";
            if (k + 1 < p[i + 1] && j[k] == j[k + 1])
                return "duplicate column index in a row";
            if (k + 1 < p[i + 1] && j[k] > j[k + 1])
                return "column indices not sorted";
            if (x[k].is_null())
                return "null value stored";
        }
    return "";
}

uint64_t pattern_hash(const CSRMatrix &m)
{
    std::vector<unsigned> p, j;
    vec_basic x;
    std::tie(p, j, x) = m.as_vectors();
    uint64_t h = fnv1a(p.data(), p.size() * sizeof(unsigned));
    unsigned nnz = p.empty() ? 0 : p.back();
    if (nnz <= j.size())
        h = fnv1a(j.data(), nnz * sizeof(unsigned), h);
    unsigned dims[2] = {m.nrows(), m.ncols()};
    return fnv1a(dims, sizeof dims, h);
}

// full comparison of a pool member with its dense mirror
void check_pair(Run &run, Pair &pr, const std::string &after)
{
    if (!pr.valid || run.failed())
        return;
    if (pr.s.nrows() != pr.d.nrows() || pr.s.ncols() != pr.d.ncols()) {
        run.fail("shape:" + after,
                 "after " + after + ": CSR is " + std::to_string(pr.s.nrows())
                     + "x" + std::to_string(pr.s.ncols()) + ", dense is "
                     + std::to_string(pr.d.nrows()) + "x"
                     + std::to_string(pr.d.ncols()));
        return;
    }
    std::string why = canonical_problem(pr.s, pr.loose);
    if (!why.empty()) {
        run.fail("not-canonical:" + after, "after " + after + ": " + why);
        return;
    }
    if (!pr.loose && !pr.s.is_canonical()) {
        run.fail("is_canonical-false:" + after,
                 "after " + after
                     + ": arrays are canonical but is_canonical() is false");
        return;
    }
    for (unsigned i = 0; i < pr.s.nrows(); i++)
        for (unsigned j = 0; j < pr.s.ncols(); j++) {
            RCP<const Basic> a = pr.s.get(i, j), b = pr.d.get(i, j);
            if (!same_value(a, b)) {
                run.fail("value:" + after,
                         "after " + after + ": element (" + std::to_string(i)
                             + "," + std::to_string(j) + ") is "
                             + a->__str__() + " in CSR, " + b->__str__()
                             + " in the dense reference");
                return;
            }
        }
    run.state(pattern_hash(pr.s));
}

CSRMatrix make_coo(unsigned r, unsigned c, const Json &entries,
                   DenseMatrix &dense, Run &run)
{
    std::vector<unsigned> is, js;
    vec_basic xs;
    dense = DenseMatrix(r, c);
    for (unsigned i = 0; i < r; i++)
        for (unsigned j = 0; j < c; j++)
            dense.set(i, j, zero);
    bool dup = false;
    std::set<std::pair<unsigned, unsigned>> seen;
    for (size_t k = 0; k < entries.size(); k++) {
        const Json &e = entries[k];
        if (e.size() < 3)
            continue;
        unsigned i = (unsigned)(e[0].as_int() % r), j = (unsigned)(e[1].as_int() % c);
        RCP<const Basic> v = VALS[(size_t)e[2].as_int() % VALS.size()];
        is.push_back(i);
        js.push_back(j);
        xs.push_back(v);
        if (!seen.insert({i, j}).second) {
            dup = true;
            if ((size_t)e[2].as_int() % VALS.size() >= NEX)
                run.probe("coo_float_duplicate_summed");
        }
        dense.set(i, j, add(dense.get(i, j), v));
    }
    if (dup)
        run.probe("coo_with_duplicates");
    return CSRMatrix::from_coo(r, c, is, js, xs);
}

RCP<const Basic> term_expr(const Json &terms)
{
    RCP<const Basic> e = zero;
    for (size_t t = 0; t < terms.size(); t++) {
        const Json &tm = terms[t];
        if (tm.size() < 4)
            continue;
        e = add(e, mul({integer((int)tm[0].as_int()),
                        pow(SX, integer((int)(tm[1].as_int() % 3))),
                        pow(SY, integer((int)(tm[2].as_int() % 3))),
                        pow(SZ, integer((int)(tm[3].as_int() % 2)))}));
    }
    return e;
}

void exec(Run &run)
{
    build_vals();
    Pair pool[NPOOL];
    unsigned npool = (unsigned)run.plan.at("config").geti("npool", NPOOL);
    if (npool < 1 || npool > (unsigned)NPOOL)
        npool = NPOOL;
    const Json &ops = run.plan.at("ops");
    unsigned mutations = 0;
    std::map<std::pair<unsigned, unsigned>, CSRMatrix> result_box; // earlier results, by shape

    auto ensure = [&](unsigned m) -> Pair & {
        Pair &p = pool[m % npool];
        if (!p.valid) { // sub-plans stay valid: an untouched slot is 2x2 zero
            p.s = CSRMatrix(2, 2);
            p.d = DenseMatrix(2, 2);
            for (unsigned i = 0; i < 2; i++)
                for (unsigned j = 0; j < 2; j++)
                    p.d.set(i, j, zero);
            p.valid = true;
            p.loose = false;
        }
        return p;
    };
    // a copy of `b` reshaped to r x c (entries outside dropped), so that
    // binary operations mostly get compatible operands
    auto reshaped = [&](const Pair &b, unsigned r, unsigned c) {
        Pair q;
        q.s = CSRMatrix(r, c);
        q.d = DenseMatrix(r, c);
        for (unsigned i = 0; i < r; i++)
            for (unsigned j = 0; j < c; j++) {
                RCP<const Basic> v = (i < b.d.nrows() && j < b.d.ncols())
                                         ? b.d.get(i, j)
                                         : RCP<const Basic>(zero);
                q.d.set(i, j, v);
                q.s.set(i, j, v);
            }
        q.valid = true;
        return q;
    };

    auto tame = [&](Pair &p) {
        if (!p.valid || run.failed())
            return;
        bool big = false;
        for (unsigned i = 0; i < p.d.nrows() && !big; i++)
            for (unsigned j = 0; j < p.d.ncols() && !big; j++)
                big = expr_size(*p.d.get(i, j), ENTRY_LIMIT + 1) > ENTRY_LIMIT;
        if (!big)
            return;
        unsigned r = p.d.nrows(), c = p.d.ncols();
        Pair q;
        q.s = CSRMatrix(r, c);
        q.d = DenseMatrix(r, c);
        for (unsigned i = 0; i < r; i++)
            for (unsigned j = 0; j < c; j++) {
                RCP<const Basic> v = zero;
                if (!eq(*p.d.get(i, j), *zero))
                    v = VALS[1 + (i * 5 + j * 3) % (NEX - 1)];
                q.d.set(i, j, v);
                q.s.set(i, j, v);
            }
        q.valid = true;
        p = q;
        run.probe("oversized_entries_replaced");
        run.ev("entries replaced by small values (same pattern)");
        check_pair(run, p, "replace-entries");
    };

    for (size_t k = 0; k < ops.size() && !run.failed(); k++) {
        const Json &o = ops[k];
        const std::string op = o.gets("op");
        run.steps++;
        try {
            if (op == "new") {
                Pair &p = pool[o.geti("m") % npool];
                unsigned r = 1 + (unsigned)((o.geti("rows", 1) + MAXDIM - 1) % MAXDIM);
                unsigned c = 1 + (unsigned)((o.geti("cols", 1) + MAXDIM - 1) % MAXDIM);
                p.s = CSRMatrix(r, c);
                p.d = DenseMatrix(r, c);
                for (unsigned i = 0; i < r; i++)
                    for (unsigned j = 0; j < c; j++)
                        p.d.set(i, j, zero);
                p.valid = true;
                p.loose = false;
                run.ev("new " + std::to_string(r) + "x" + std::to_string(c));
                check_pair(run, p, "new");
            } else if (op == "coo") {
                Pair &p = pool[o.geti("m") % npool];
                unsigned r = 1 + (unsigned)((o.geti("rows", 1) + MAXDIM - 1) % MAXDIM);
                unsigned c = 1 + (unsigned)((o.geti("cols", 1) + MAXDIM - 1) % MAXDIM);
                p.s = make_coo(r, c, o.at("entries"), p.d, run);
                p.valid = true;
                p.loose = false;
                run.ev("coo " + std::to_string(r) + "x" + std::to_string(c)
                       + " n=" + std::to_string(o.at("entries").size()));
                check_pair(run, p, "from_coo");
            } else if (op == "set") {
                Pair &p = ensure((unsigned)o.geti("m"));
                if (p.loose) { // normalise: rebuild from dense
                    p = reshaped(p, p.d.nrows(), p.d.ncols());
                }
                unsigned i = (unsigned)(o.geti("i") % p.s.nrows());
                unsigned j = (unsigned)(o.geti("j") % p.s.ncols());
                RCP<const Basic> v = VALS[(size_t)o.geti("v") % VALS.size()];
                // reach probes (from the model's point of view)
                {
                    bool present = !eq(*p.d.get(i, j), *zero);
                    unsigned before = 0, after = 0, inrow = 0;
                    for (unsigned c = 0; c < p.d.ncols(); c++)
                        if (!eq(*p.d.get(i, c), *zero)) {
                            inrow++;
                            if (c < j)
                                before++;
                            if (c > j)
                                after++;
                        }
                    bool z = eq(*v, *zero);
                    if ((size_t)o.geti("v") % VALS.size() >= NEX)
                        run.probe(present ? "set_float_overwrite"
                                          : "set_float_insert");
                    if (z && present)
                        run.probe(inrow == 1 ? "set_delete_last_in_row"
                                             : "set_delete");
                    else if (z)
                        run.probe("set_zero_on_absent");
                    else if (present)
                        run.probe("set_overwrite");
                    else if (inrow == 0)
                        run.probe("set_insert_empty_row");
                    else if (before == 0)
                        run.probe("set_insert_front");
                    else if (after == 0)
                        run.probe("set_insert_back");
                    else
                        run.probe("set_insert_middle");
                    if (inrow > 0)
                        mutations++;
                }
                p.s.set(i, j, v);
                p.d.set(i, j, v);
                run.ev("set " + std::to_string(i) + "," + std::to_string(j)
                       + "=" + v->__str__());
                check_pair(run, p, "set");
            } else if (op == "get") {
                Pair &p = ensure((unsigned)o.geti("m"));
                unsigned i = (unsigned)(o.geti("i") % p.s.nrows());
                unsigned j = (unsigned)(o.geti("j") % p.s.ncols());
                RCP<const Basic> a = p.s.get(i, j), b = p.d.get(i, j);
                run.ev("get " + std::to_string(i) + "," + std::to_string(j)
                       + " -> " + a->__str__());
                if (!same_value(a, b))
                    run.fail("value:get", "get(" + std::to_string(i) + ","
                                              + std::to_string(j) + ") = "
                                              + a->__str__() + ", dense "
                                              + b->__str__());
            } else if (op == "transpose" || op == "conj" || op == "ctrans") {
                Pair &src = ensure((unsigned)o.geti("m"));
                if (src.loose)
                    src = reshaped(src, src.d.nrows(), src.d.ncols());
                Pair res;
                // dense results must be pre-sized by the caller
                if (op == "conj")
                    res.d = DenseMatrix(src.d.nrows(), src.d.ncols());
                else
                    res.d = DenseMatrix(src.d.ncols(), src.d.nrows());
                res.s = CSRMatrix(1, 1);
                if (op == "transpose") {
                    if (o.geti("form") % 2 == 0)
                        res.s = src.s.transpose();
                    else
                        src.s.transpose(res.s);
                    src.d.transpose(res.d);
                } else if (op == "conj") {
                    src.s.conjugate(res.s);
                    src.d.conjugate(res.d);
                } else {
                    src.s.conjugate_transpose(res.s);
                    src.d.conjugate_transpose(res.d);
                }
                res.valid = true;
                run.ev(op + " -> " + std::to_string(res.s.nrows()) + "x"
                       + std::to_string(res.s.ncols()));
                if (src.s.nrows() != src.s.ncols())
                    run.probe("unary_op_on_non_square");
                check_pair(run, res, op);
                pool[o.geti("dst") % npool] = res;
                tame(pool[o.geti("dst") % npool]);
                mutations++;
            } else if (op == "binop" || op == "emul") {
                Pair &a = ensure((unsigned)o.geti("a"));
                Pair &b0 = ensure((unsigned)o.geti("b"));
                if (a.loose)
                    a = reshaped(a, a.d.nrows(), a.d.ncols());
                Pair b = b0;
                if (b.loose || (o.at("reshape").as_bool()
                                && (b.s.nrows() != a.s.nrows()
                                    || b.s.ncols() != a.s.ncols())))
                    b = reshaped(b0, a.s.nrows(), a.s.ncols());
                if (b.s.nrows() != a.s.nrows() || b.s.ncols() != a.s.ncols()) {
                    run.ev(op + " skipped: shapes differ");
                    continue;
                }
                unsigned r = a.s.nrows(), c = a.s.ncols();
                Pair res;
                res.s = CSRMatrix(r, c);
                res.d = DenseMatrix(r, c);
                {
                    // the output argument may be an object that already holds
                    // an earlier (larger or smaller) result of the same shape
                    auto it = result_box.find(std::make_pair(r, c));
                    if (o.at("reuse").as_bool() && it != result_box.end()) {
                        res.s = CSRMatrix(it->second);
                        run.probe("result_object_reused");
                    }
                }
                std::string f = op == "emul" ? "emul" : o.gets("f", "add");
                if (op == "emul") {
                    a.s.elementwise_mul_matrix(b.s, res.s);
                    a.d.elementwise_mul_matrix(b.d, res.d);
                } else if (f == "add") {
                    csr_binop_csr_canonical(a.s, b.s, res.s, add);
                    a.d.add_matrix(b.d, res.d);
                } else if (f == "sub") {
                    csr_binop_csr_canonical(a.s, b.s, res.s, sub);
                    for (unsigned i = 0; i < r; i++)
                        for (unsigned j = 0; j < c; j++)
                            res.d.set(i, j, sub(a.d.get(i, j), b.d.get(i, j)));
                } else {
                    csr_binop_csr_canonical(a.s, b.s, res.s, mul);
                    a.d.elementwise_mul_matrix(b.d, res.d);
                }
                res.valid = true;
                // probe: a cancellation dropped an entry
                {
                    bool cancel = false;
                    for (unsigned i = 0; i < r && !cancel; i++)
                        for (unsigned j = 0; j < c; j++)
                            if (!eq(*a.d.get(i, j), *zero)
                                && !eq(*b.d.get(i, j), *zero)
                                && eq(*res.d.get(i, j), *zero)) {
                                cancel = true;
                                break;
                            }
                    if (cancel)
                        run.probe("binop_entry_cancelled");
                }
                run.ev(f + " " + std::to_string(r) + "x" + std::to_string(c));
                check_pair(run, res, "binop-" + f);
                if (!run.failed()) {
                    result_box.erase(std::make_pair(r, c));
                    result_box.emplace(std::make_pair(r, c), CSRMatrix(res.s));
                }
                pool[o.geti("dst") % npool] = res;
                tame(pool[o.geti("dst") % npool]);
                mutations++;
            } else if (op == "matmat") {
                Pair &a = ensure((unsigned)o.geti("a"));
                Pair &b0 = ensure((unsigned)o.geti("b"));
                if (a.loose)
                    a = reshaped(a, a.d.nrows(), a.d.ncols());
                Pair b = b0;
                if (b.loose
                    || (o.at("reshape").as_bool() && b.s.nrows() != a.s.ncols()))
                    b = reshaped(b0, a.s.ncols(), b0.d.ncols());
                if (b.s.nrows() != a.s.ncols()) {
                    run.ev("matmat skipped: inner dimensions differ");
                    continue;
                }
                unsigned r = a.s.nrows(), c = b.s.ncols();
                if (c > a.s.ncols())
                    run.probe("matmat_B_wider_than_A");
                // the two-pass product, driven the way its SciPy original is
                CSRMatrix c1(r, c);
                csr_matmat_pass1(a.s, b.s, c1);
                std::vector<unsigned> p1, j1;
                vec_basic x1;
                std::tie(p1, j1, x1) = c1.as_vectors();
                unsigned nnz = p1[r];
                Pair res;
                res.s = CSRMatrix(r, c, std::move(p1),
                                  std::vector<unsigned>(nnz), vec_basic(nnz));
                csr_matmat_pass2(a.s, b.s, res.s);
                res.d = DenseMatrix(r, c);
                a.d.mul_matrix(b.d, res.d);
                res.valid = true;
                {
                    std::vector<unsigned> p2, j2;
                    vec_basic x2;
                    std::tie(p2, j2, x2) = res.s.as_vectors();
                    if (p2[r] > nnz) {
                        run.fail("matmat:pass2-exceeds-pass1",
                                 "pass 2 produced more entries than pass 1 "
                                 "counted");
                    }
                    // pass 2 drops cancelled entries without shrinking the
                    // arrays, and emits columns of a row in linked-list
                    // order: only values are compared for this result
                    res.loose = true;
                    if (p2[r] < nnz)
                        run.probe("matmat_entry_cancelled");
                }
                run.ev("matmat " + std::to_string(r) + "x"
                       + std::to_string(c) + " nnz1=" + std::to_string(nnz));
                if (!run.failed()) {
                    // value comparison through the raw arrays (get() assumes
                    // sorted columns, which pass 2 does not promise)
                    std::vector<unsigned> p2, j2;
                    vec_basic x2;
                    std::tie(p2, j2, x2) = res.s.as_vectors();
                    DenseMatrix got(r, c);
                    for (unsigned i = 0; i < r; i++)
                        for (unsigned j = 0; j < c; j++)
                            got.set(i, j, zero);
                    bool bad = false;
                    for (unsigned i = 0; i < r && !bad; i++)
                        for (unsigned q = p2[i]; q < p2[i + 1]; q++) {
                            if (q >= j2.size() || j2[q] >= c
                                || x2[q].is_null()) {
                                bad = true;
                                break;
                            }
                            got.set(i, j2[q], add(got.get(i, j2[q]), x2[q]));
                        }
                    if (bad)
                        run.fail("matmat:malformed",
                                 "product arrays index out of range");
                    for (unsigned i = 0; i < r && !run.failed(); i++)
                        for (unsigned j = 0; j < c; j++)
                            if (!same_value(got.get(i, j), res.d.get(i, j))) {
                                run.fail(
                                    "value:matmat",
                                    "product element (" + std::to_string(i)
                                        + "," + std::to_string(j) + ") is "
                                        + got.get(i, j)->__str__()
                                        + ", dense product gives "
                                        + res.d.get(i, j)->__str__());
                                break;
                            }
                    // store the normalised product so later steps use it
                    Pair norm = reshaped(res, r, c);
                    pool[o.geti("dst") % npool] = norm;
                    tame(pool[o.geti("dst") % npool]);
                }
                mutations++;
            } else if (op == "scale_rows" || op == "scale_cols") {
                Pair &p = ensure((unsigned)o.geti("m"));
                if (p.loose)
                    p = reshaped(p, p.d.nrows(), p.d.ncols());
                bool rows = op == "scale_rows";
                unsigned n = rows ? p.s.nrows() : p.s.ncols();
                DenseMatrix X(n, 1);
                const Json &vec = o.at("vec");
                bool has_zero = false;
                for (unsigned q = 0; q < n; q++) {
                    RCP<const Basic> v
                        = vec.size() ? VALS[(size_t)vec[q % vec.size()].as_int()
                                            % NEX]
                                     : RCP<const Basic>(one);
                    if (eq(*v, *zero))
                        has_zero = true;
                    X.set(q, 0, v);
                }
                bool threw = false;
                try {
                    if (rows)
                        csr_scale_rows(p.s, X);
                    else
                        csr_scale_columns(p.s, X);
                } catch (const SymEngineException &) {
                    threw = true;
                }
                run.ev(op + (threw ? " threw" : " ok"));
                if (threw && !has_zero) {
                    run.fail("scale:unexpected-exception",
                             op + " threw although no factor is zero");
                } else if (!threw) {
                    if (has_zero)
                        run.probe("scale_by_zero_accepted");
                    for (unsigned i = 0; i < p.d.nrows(); i++)
                        for (unsigned j = 0; j < p.d.ncols(); j++)
                            p.d.set(i, j,
                                    mul(p.d.get(i, j), X.get(rows ? i : j, 0)));
                    check_pair(run, p, op);
                } else {
                    run.probe("scale_by_zero_rejected");
                    // rows before the zero factor may already be scaled
                    // (documented in-place operation that threw): resync the
                    // mirror from the CSR side, then keep checking format
                    for (unsigned i = 0; i < p.d.nrows(); i++)
                        for (unsigned j = 0; j < p.d.ncols(); j++)
                            p.d.set(i, j, p.s.get(i, j));
                    check_pair(run, p, op + "-threw");
                }
                tame(p);
                mutations++;
            } else if (op == "diag") {
                Pair &p = ensure((unsigned)o.geti("m"));
                if (p.loose)
                    p = reshaped(p, p.d.nrows(), p.d.ncols());
                unsigned n = std::min(p.s.nrows(), p.s.ncols());
                DenseMatrix D(n, 1);
                csr_diagonal(p.s, D);
                std::string s;
                for (unsigned i = 0; i < n && !run.failed(); i++) {
                    s += D.get(i, 0)->__str__() + " ";
                    if (!same_value(D.get(i, 0), p.d.get(i, i)))
                        run.fail("value:diagonal",
                                 "csr_diagonal element " + std::to_string(i)
                                     + " is " + D.get(i, 0)->__str__()
                                     + ", matrix has "
                                     + p.d.get(i, i)->__str__());
                }
                run.ev("diag " + s);
            } else if (op == "jac") {
                const Json &es = o.at("exprs");
                unsigned nv = 1 + (unsigned)((o.geti("nvars", 1) + 2) % 3);
                vec_sym syms = {SX, SY, SZ};
                syms.resize(nv);
                vec_basic exprs;
                for (size_t q = 0; q < es.size(); q++)
                    exprs.push_back(term_expr(es[q]));
                if (exprs.empty())
                    exprs.push_back(zero);
                bool dc = o.at("diff_cache").as_bool();
                Pair res;
                DenseMatrix A(exprs), X(vec_basic(syms.begin(), syms.end()));
                if (o.at("dense_form").as_bool())
                    res.s = CSRMatrix::jacobian(A, X, dc);
                else
                    res.s = CSRMatrix::jacobian(exprs, syms, dc);
                res.d = DenseMatrix((unsigned)exprs.size(), nv);
                jacobian(A, X, res.d, dc);
                res.valid = true;
                run.ev("jac " + std::to_string(exprs.size()) + "x"
                       + std::to_string(nv));
                check_pair(run, res, "jacobian");
                pool[o.geti("dst") % npool] = res;
                tame(pool[o.geti("dst") % npool]);
            } else if (op == "notimpl") {
                Pair &p = ensure((unsigned)o.geti("m"));
                if (p.loose)
                    p = reshaped(p, p.d.nrows(), p.d.ncols());
                std::string which = o.gets("which");
                Pair res;
                res.s = CSRMatrix(p.s.nrows(), p.s.ncols());
                res.d = DenseMatrix(p.d.nrows(), p.d.ncols());
                bool threw = false;
                try {
                    if (which == "add_matrix") {
                        p.s.add_matrix(p.s, res.s);
                        p.d.add_matrix(p.d, res.d);
                    } else if (which == "mul_scalar") {
                        p.s.mul_scalar(integer(3), res.s);
                        p.d.mul_scalar(integer(3), res.d);
                    } else if (which == "add_scalar") {
                        p.s.add_scalar(integer(3), res.s);
                        p.d.add_scalar(integer(3), res.d);
                    } else {
                        if (p.s.nrows() != p.s.ncols())
                            throw NotImplementedError("harness: not square");
                        p.s.mul_matrix(p.s, res.s);
                        p.d.mul_matrix(p.d, res.d);
                    }
                } catch (const SymEngineException &) {
                    threw = true; // a library exception is an accepted outcome
                }
                run.ev(which + (threw ? " threw" : " returned"));
                if (!threw) {
                    res.valid = true;
                    check_pair(run, res, which);
                }
            } else if (op == "eq") {
                Pair &a = ensure((unsigned)o.geti("a"));
                Pair &b = ensure((unsigned)o.geti("b"));
                if (a.loose)
                    a = reshaped(a, a.d.nrows(), a.d.ncols());
                if (b.loose)
                    b = reshaped(b, b.d.nrows(), b.d.ncols());
                bool es = a.s.eq(b.s), ed = a.d.eq(b.d);
                bool mixed = a.s.eq(b.d);
                run.ev(std::string("eq ") + (es ? "1" : "0"));
                // stored explicit zeros (from cancelling duplicates) make
                // CSR eq stricter than value equality; only one direction is
                // implied: equal arrays => equal values
                if (es && !ed)
                    run.fail("value:eq", "CSR eq() true but dense values differ");
                if (mixed != ed)
                    run.fail("value:eq-mixed",
                             "CSR.eq(Dense) disagrees with dense eq");
            } else if (op == "copy") {
                Pair &p = ensure((unsigned)o.geti("m"));
                Pair q = p;
                pool[o.geti("dst") % npool] = q;
                run.ev("copy");
                check_pair(run, pool[o.geti("dst") % npool], "copy");
            } else if (op == "is_real") {
                Pair &p = ensure((unsigned)o.geti("m"));
                if (p.loose)
                    p = reshaped(p, p.d.nrows(), p.d.ncols());
                tribool a = p.s.is_real(), b = p.d.is_real();
                run.ev("is_real " + std::to_string((int)a));
                // CSR looks at stored entries only; zeros are real, so the
                // answers must agree
                if (a != b)
                    run.fail("value:is_real", "is_real differs from dense");
            } else {
                run.ev("skip unknown op");
            }
        } catch (const SymEngineException &e) {
            run.fail("unexpected-exception:" + op,
                     op + " threw " + demangle(typeid(e).name()) + ": "
                         + e.what());
        }
    }
    run.nontrivial = mutations >= 3;
}

} // namespace

int main(int argc, char **argv)
{
    Check c = {"C25", 25, gen, exec, build_vals};
    return harness_main(argc, argv, c);
}
