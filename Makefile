# Harness binaries. Libraries are built by bin/build-lib from /repo's working
# tree; every harness depends on its library archive and (through depfiles)
# on the /repo headers it includes, so a change in /repo rebuilds it.
REPO ?= /repo
B := build
CXX := g++
COMMON := -g -fno-omit-frame-pointer -DSYMENGINE_VERIF_SIM -Wall -Wno-unused-function -Wno-deprecated-declarations
ASAN_FLAGS := -O1 $(COMMON) -fsanitize=address,undefined -fno-sanitize-recover=undefined -D_GLIBCXX_SANITIZE_VECTOR
TSAN_FLAGS := -O1 $(COMMON) -fsanitize=thread
inc = -I$(REPO) -I$(B)/$(1) -I$(REPO)/symengine/utilities/cereal/include
SIMHDR := $(wildcard sim/*.h)

ASAN_CHECKS := c33 c25 c13 c18 c19 c20 c23 c32
ASAN_BINS := $(patsubst %,$(B)/bin/%,$(ASAN_CHECKS))
SIM_SRC_c19 := sim/alloc_seam.cpp
SIM_SRC_c20 := sim/alloc_seam.cpp
SIM_SRC_c23 := sim/rand_seam.cpp
SIM_SRC_c32 := sim/rand_seam.cpp
LDFLAGS_c23 := -Wl,--wrap=rand
LDFLAGS_c32 := -Wl,--wrap=rand

.PHONY: all asan c41
all: asan c41
asan: $(ASAN_BINS)

# pattern: checks/cNN_*.cpp -> build/bin/cNN (asan variant)
define ASAN_RULE
$(B)/bin/$(1): $$(wildcard checks/$(1)_*.cpp) $(SIMHDR) $(B)/asan/symengine/libsymengine.a $$(wildcard sim/*.cpp)
	@mkdir -p $(B)/bin $(B)/dep
	$(CXX) $(ASAN_FLAGS) $(call inc,asan) -MMD -MF $(B)/dep/$(1).d -o $$@ $$(wildcard checks/$(1)_*.cpp) $$(SIM_SRC_$(1)) $(B)/asan/symengine/libsymengine.a -lgmp $$(LDFLAGS_$(1))
endef
$(foreach c,$(ASAN_CHECKS),$(eval $(call ASAN_RULE,$(c))))

-include $(wildcard $(B)/dep/*.d)
