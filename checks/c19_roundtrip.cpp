// C19: serialization round-trips exactly -- under every address-reuse
// behaviour of the allocator and every chunking of the byte stream.
//
// dumps() writes each node's ADDRESS as its identity key; whether two
// distinct temporaries collide depends on when the allocator hands an address
// out again. The allocator seam decides that (immediate LIFO reuse per size
// class is the adversarial policy), the stream seam decides chunking / short
// reads. No byte is corrupted in this check (that is C20).
#include "../sim/harness.h"
#include "../sim/exprgen.h"
#include "../sim/alloc_seam.h"
#include "../sim/stream_seam.h"
#include <symengine/serialize-cereal.h>
#include <symengine/matrix.h>
#include <symengine/visitor.h>
#include <algorithm>
#include <cmath>

using namespace sim;
using namespace SymEngine;

SIM_SANITIZER_DEFAULTS()

namespace
{

Json gen(uint64_t seed, const std::string &tier)
{
    Rng g(seed);
    bool thorough = tier == "thorough";
    Json plan = Json::object();
    Json cfg = Json::object();
    // swarm: allocator policy (LIFO most often: the adversarial one)
    static const char *pol[] = {"lifo", "lifo", "lifo", "fifo", "random", "system"};
    cfg["policy"] = pol[g.below(6)];
    cfg["alloc_seed"] = (long long)(g.next() >> 2);
    cfg["maxchunk"] = (unsigned)(1 + g.below(g.chance(1, 2) ? 3 : 64));
    plan["config"] = cfg;
    // expression pool with sharing
    Json pool = Json::array();
    unsigned npool = 3 + (unsigned)g.below(thorough ? 14 : 9);
    int depth = 1 + (int)g.below(thorough ? 4 : 3);
    for (unsigned i = 0; i < npool; i++) {
        switch (g.below(8)) {
            case 0:
                pool.push(simx::rallbool(g, depth, i));
                break;
            case 1:
                pool.push(simx::rallset(g, depth, i));
                break;
            default:
                pool.push(simx::rall(g, depth, i));
        }
    }
    plan["pool"] = pool;
    Json ops = Json::array();
    unsigned nops = 2 + (unsigned)g.below(thorough ? 14 : 8);
    for (unsigned k = 0; k < nops; k++) {
        Json o = Json::object();
        unsigned w = (unsigned)g.below(10);
        if (w < 7 && g.chance(1, 8)) {
            // a dump that fails half way: an expression with a node that
            // cannot be serialised, after some that can. The failure itself
            // is fine; what follows on the same thread must not notice it.
            o["op"] = "rt";
            Json r = Json::array();
            r.push(g.chance(1, 2) ? "add" : "fsym");
            if (r[0].s == "fsym")
                r.push("h");
            unsigned n = 1 + (unsigned)g.below(3);
            for (unsigned i = 0; i < n; i++) {
                Json rr = Json::array();
                rr.push("ref");
                rr.push((long long)g.below(npool));
                r.push(rr);
            }
            Json bad = Json::array();
            if (g.chance(1, 2)) {
                bad.push("uintpoly");
                bad.push((long long)g.below(3));
                bad.push((long long)g.range(-5, 5));
                bad.push((long long)g.range(1, 5));
            } else {
                bad.push("contains");
                Json sy = Json::array();
                sy.push("sym");
                sy.push((long long)g.below(3));
                bad.push(sy);
                Json st = Json::array();
                st.push("set");
                st.push(g.chance(1, 2) ? "naturals" : "complexes");
                bad.push(st);
            }
            r.push(bad);
            o["e"] = r;
            o["api"] = g.chance(3, 4) ? "string" : "archive";
            o["read_seed"] = (long long)(g.next() >> 2);
            o["expect_unsupported"] = true;
        } else if (w < 7) {
            o["op"] = "rt";
            if (g.chance(1, 2)) {
                Json r = Json::array();
                r.push("ref");
                r.push((long long)g.below(npool));
                o["e"] = r;
            } else { // a fresh node over several pool members: more sharing
                Json r = Json::array();
                r.push(g.chance(1, 2) ? "add" : (g.chance(1, 2) ? "mul" : "fsym"));
                if (r[0].s == "fsym")
                    r.push("h");
                unsigned n = 2 + (unsigned)g.below(4);
                for (unsigned i = 0; i < n; i++) {
                    Json rr = Json::array();
                    rr.push("ref");
                    rr.push((long long)g.below(npool));
                    r.push(rr);
                }
                o["e"] = r;
            }
            o["api"] = g.chance(1, 2) ? "string" : "archive";
            o["read_seed"] = (long long)(g.next() >> 2);
        } else if (w < 9) {
            o["op"] = "matrix";
            unsigned r = 1 + (unsigned)g.below(3), c = 1 + (unsigned)g.below(3);
            o["rows"] = r;
            o["cols"] = c;
            Json el = Json::array();
            for (unsigned i = 0; i < r * c; i++)
                el.push((long long)g.below(npool));
            o["elems"] = el;
            // two different entries that agree in everything a hash reads:
            // k and 2^64 + k (Integer::__hash__ takes the low 64 bits)
            if (g.chance(1, 4))
                o["twin"] = (long long)g.range(-20, 20);
            else
                o["twin"] = 1000;
        } else if (g.chance(1, 2)) {
            // loads that fail (a torn copy of a valid dump), in a burst: the
            // failures are fine, the round trips after them must not notice
            o["op"] = "failed_loads";
            o["e"] = (long long)g.below(npool);
            o["n"] = (unsigned)(1 + g.below(g.chance(1, 3) ? 400 : 20));
            o["cut"] = (long long)g.below(100000);
        } else {
            o["op"] = "junk";
            o["n"] = (unsigned)(1 + g.below(200));
        }
        ops.push(o);
    }
    plan["ops"] = ops;
    return plan;
}

// ---------------------------------------------------------------------------
struct AllocScope {
    AllocScope(simalloc::Policy p, uint64_t seed)
    {
        simalloc::configure(p, seed, (size_t)256 << 20, (size_t)1 << 30);
        simalloc::reset_counters();
    }
    ~AllocScope()
    {
        simalloc::deactivate();
    }
};

void collect_doubles(const Basic &b, std::vector<uint64_t> &out, int depth = 0)
{
    if (depth > 200)
        return;
    auto bits = [&](double d) {
        uint64_t u;
        memcpy(&u, &d, sizeof u);
        out.push_back(u);
    };
    if (is_a<RealDouble>(b))
        bits(down_cast<const RealDouble &>(b).i);
    else if (is_a<ComplexDouble>(b)) {
        bits(down_cast<const ComplexDouble &>(b).i.real());
        bits(down_cast<const ComplexDouble &>(b).i.imag());
    }
    for (auto &a : b.get_args())
        collect_doubles(*a, out, depth + 1);
}

bool has_nan_double(const Basic &b)
{
    std::vector<uint64_t> dd;
    collect_doubles(b, dd);
    for (auto u : dd) {
        double d;
        memcpy(&d, &u, sizeof d);
        if (std::isnan(d))
            return true;
    }
    return false;
}

std::string dump_archive(const RCP<const Basic> &e, simio::RecordingBuf &ob)
{
    std::ostream os(&ob);
    unsigned short major = SYMENGINE_MAJOR_VERSION, minor = SYMENGINE_MINOR_VERSION;
    {
        RCPBasicAwareOutputArchive<cereal::PortableBinaryOutputArchive> oar(os);
        oar(major, minor, e);
    }
    return ob.data;
}

RCP<const Basic> load_archive(const std::string &bytes, uint64_t seed,
                              unsigned maxchunk, uint64_t &refills)
{
    simio::ShortReadBuf ib(bytes, seed, maxchunk);
    std::istream is(&ib);
    unsigned short major, minor;
    RCP<const Basic> obj;
    RCPBasicAwareInputArchive<cereal::PortableBinaryInputArchive> iar(is);
    iar(major, minor);
    iar(obj);
    refills = ib.refills;
    return obj;
}

std::string hex64(uint64_t h)
{
    char b[24];
    snprintf(b, sizeof b, "%016llx", (unsigned long long)h);
    return b;
}

void exec(Run &run)
{
    const Json &cfg = run.plan.at("config");
    std::string pol = cfg.gets("policy", "lifo");
    simalloc::Policy policy = pol == "lifo"     ? simalloc::LIFO
                              : pol == "fifo"   ? simalloc::FIFO
                              : pol == "random" ? simalloc::RANDOM
                                                : simalloc::SYSTEM;
    unsigned maxchunk = (unsigned)cfg.geti("maxchunk", 8);
    AllocScope scope(policy, (uint64_t)cfg.geti("alloc_seed", 1));
    run.ev("policy " + pol);

    simx::Pool pool;
    const Json &pl = run.plan.at("pool");
    for (size_t i = 0; i < pl.size(); i++) {
        try {
            pool.push_back(simx::build(pl[i], pool));
        } catch (const SymEngineException &) {
            pool.push_back(simx::sym_n((int64_t)i));
            run.probe("recipe_unbuildable");
        } catch (const simx::BuildError &) {
            pool.push_back(simx::sym_n((int64_t)i));
            run.probe("recipe_unbuildable");
        }
    }
    if (pool.empty())
        pool.push_back(simx::sym_n(0));

    const Json &ops = run.plan.at("ops");
    unsigned roundtrips = 0, reused_during_dump = 0;
    for (size_t k = 0; k < ops.size() && !run.failed(); k++) {
        const Json &o = ops[k];
        std::string op = o.gets("op");
        run.steps++;
        if (op == "junk") {
            // a different population of live objects between dump and load
            unsigned n = (unsigned)o.geti("n", 10);
            std::vector<RCP<const Basic>> junk;
            for (unsigned i = 0; i < n; i++)
                junk.push_back(i % 3 ? (RCP<const Basic>)integer((long)i)
                                     : (RCP<const Basic>)Rational::from_two_ints(
                                         (long)i + 1, (long)i + 2));
            for (unsigned i = 0; i < n; i += 2)
                junk[i] = RCP<const Basic>();
            run.ev("junk " + std::to_string(n));
            continue;
        }
        if (op == "failed_loads") {
            const RCP<const Basic> &e = pool[(size_t)o.geti("e") % pool.size()];
            std::string bytes;
            try {
                bytes = e->dumps();
            } catch (const SymEngineException &) {
                continue;
            }
            unsigned n = (unsigned)std::min<int64_t>(500, o.geti("n", 1)), failed = 0;
            for (unsigned i = 0; i < n && bytes.size() > 5; i++) {
                // torn write: keep a proper prefix that ends inside the payload
                size_t keep = 4 + (size_t)((o.geti("cut") + 7 * i) % (int64_t)(bytes.size() - 4));
                try {
                    (void)Basic::loads(bytes.substr(0, keep));
                } catch (const SymEngineException &) {
                    failed++;
                }
            }
            run.counters["fault.load_of_torn_dump_failed"] += failed;
            run.ev("failed_loads " + std::to_string(failed) + "/" + std::to_string(n));
            continue;
        }
        if (op == "matrix") {
            unsigned r = 1 + (unsigned)((o.geti("rows", 1) + 3) % 4);
            unsigned c = 1 + (unsigned)((o.geti("cols", 1) + 3) % 4);
            const Json &el = o.at("elems");
            vec_basic v;
            for (unsigned i = 0; i < r * c; i++)
                v.push_back(pool[el.size() ? (size_t)el[i % el.size()].as_int()
                                                 % pool.size()
                                           : 0]);
            if (o.geti("twin", 1000) != 1000 && v.size() >= 2) {
                long k = (long)o.geti("twin");
                integer_class big(1);
                big = big << 64;
                big = big + integer_class(k);
                v[0] = integer(k);
                v[v.size() - 1] = integer(big);
                if (v.size() >= 3 && (k & 1)) // and the same pair inside sums
                    v[1] = add(integer(big), simx::sym_n(0)), v[0] = add(integer(k), simx::sym_n(0));
                run.probe("matrix_entries_with_colliding_hashes");
            }
            DenseMatrix m(r, c, v);
            std::string bytes;
            try {
                bytes = m.dumps();
            } catch (const SymEngineException &e) {
                run.ev("matrix dumps unsupported");
                run.probe("dumps_unsupported");
                continue;
            }
            try {
                DenseMatrix l = DenseMatrix::loads(bytes);
                bool ok = l.nrows() == r && l.ncols() == c;
                for (unsigned i = 0; ok && i < r; i++)
                    for (unsigned j = 0; j < c; j++)
                        if ((!has_nan_double(*m.get(i, j))
                             && !eq(*l.get(i, j), *m.get(i, j)))
                            || l.get(i, j)->__str__() != m.get(i, j)->__str__()) {
                            ok = false;
                            run.fail("matrix-roundtrip-differs",
                                     "DenseMatrix element (" + std::to_string(i)
                                         + "," + std::to_string(j) + "): "
                                         + m.get(i, j)->__str__() + " came back as "
                                         + l.get(i, j)->__str__());
                            break;
                        }
                if (!ok && !run.failed())
                    run.fail("matrix-roundtrip-differs", "shape changed");
                run.ev("matrix " + std::to_string(r) + "x" + std::to_string(c)
                       + " bytes=" + std::to_string(bytes.size()));
                run.probe("matrix_roundtrip");
                roundtrips++;
            } catch (const SymEngineException &e) {
                run.fail("loads-rejects-own-dump:matrix",
                         std::string("DenseMatrix::loads threw on bytes produced "
                                     "by dumps: ")
                             + e.what());
            }
            continue;
        }
        if (op != "rt")
            continue;
        RCP<const Basic> e;
        try {
            e = simx::build(o.at("e"), pool);
        } catch (const SymEngineException &) {
            e = pool[0];
        } catch (const simx::BuildError &) {
            e = pool[0];
        }
        bool archive = o.gets("api") == "archive";
        std::string bytes;
        simalloc::Stats before = simalloc::stats();
        try {
            if (archive) {
                simio::RecordingBuf ob;
                bytes = dump_archive(e, ob);
            } else
                bytes = e->dumps();
        } catch (const SymEngineException &ex) {
            run.ev("dumps unsupported: " + demangle(typeid(ex).name()));
            run.probe("dumps_unsupported");
            if (o.at("expect_unsupported").as_bool())
                run.fault("dumps_failed_half_way");
            continue;
        }
        simalloc::Stats after = simalloc::stats();
        if (after.reuses > before.reuses) {
            run.probe("address_reused_while_output_archive_alive");
            run.count("addresses_reused_during_dumps", after.reuses - before.reuses);
            reused_during_dump++;
        }
        RCP<const Basic> l;
        uint64_t refills = 0;
        try {
            if (archive)
                l = load_archive(bytes, (uint64_t)o.geti("read_seed", 1), maxchunk,
                                 refills);
            else
                l = Basic::loads(bytes);
        } catch (const SymEngineException &ex) {
            run.fail("loads-rejects-own-dump",
                     "loads threw " + demangle(typeid(ex).name()) + " (" + ex.what()
                         + ") on the bytes dumps produced for " + e->__str__());
            break;
        }
        if (refills)
            run.count("short_reads", refills);
        roundtrips++;
        run.probe(archive ? "roundtrip_archive_api" : "roundtrip_string_api");
        std::string se = e->__str__(), sl = l->__str__();
        run.ev("rt " + std::string(archive ? "archive " : "string ") + "bytes="
               + std::to_string(bytes.size()) + " str="
               + hex64(fnv1a(se.data(), se.size())));
        bool has_nan = false;
        {
            std::vector<uint64_t> dd;
            collect_doubles(*e, dd);
            for (auto u : dd) {
                double d;
                memcpy(&d, &u, sizeof d);
                if (std::isnan(d))
                    has_nan = true;
            }
        }
        if (has_nan)
            run.probe("eq_oracle_skipped_nan_double");
        if (!has_nan && (!eq(*l, *e) || !eq(*e, *l))) {
            run.fail("roundtrip-not-equal",
                     "loads(dumps(e)) != e:  e = " + se.substr(0, 400)
                         + "   loaded = " + sl.substr(0, 400));
            break;
        }
        if (se != sl) {
            run.fail("roundtrip-str-differs",
                     "equal but prints differently: " + se.substr(0, 300) + " vs "
                         + sl.substr(0, 300));
            break;
        }
        if (!has_nan && l->hash() != e->hash()) {
            run.fail("roundtrip-hash-differs", "equal expressions, different hash: " + se.substr(0, 300));
            break;
        }
        // Add/Mul keep their terms in unordered maps, whose iteration order
        // is not part of the value: compare the multisets of bit patterns
        std::vector<uint64_t> d1, d2;
        collect_doubles(*e, d1);
        collect_doubles(*l, d2);
        std::sort(d1.begin(), d1.end());
        std::sort(d2.begin(), d2.end());
        if (d1 != d2) {
            std::string a, b;
            for (auto v : d1)
                a += hex64(v) + " ";
            for (auto v : d2)
                b += hex64(v) + " ";
            run.fail("roundtrip-double-bits-differ",
                     "double leaves are not bit-for-bit identical in " + se.substr(0, 300)
                         + "  original: " + a + " loaded: " + b);
            break;
        }
        if (!d1.empty())
            run.probe("doubles_compared_bitwise");
        // sharing restored: each shared node is written once, so a dump of the
        // copy is longer iff the copy lost sharing
        try {
            std::string again = l->dumps();
            if (again.size() > bytes.size()) {
                run.fail("roundtrip-sharing-lost",
                         "dumps(loaded) has " + std::to_string(again.size())
                             + " bytes, dumps(original) " + std::to_string(bytes.size())
                             + ": shared subexpressions were duplicated in " + se.substr(0, 300));
                break;
            }
            if (again.size() < bytes.size())
                run.probe("copy_shares_more_than_original");
        } catch (const SymEngineException &ex) {
            run.fail("redump-of-loaded-fails", ex.what());
            break;
        }
    }
    simalloc::Stats st = simalloc::stats();
    run.count("allocator_reuses", st.reuses);
    run.fault(std::string("alloc_policy_") + pol);
    run.nontrivial = roundtrips >= 1 && (reused_during_dump > 0 || policy == simalloc::SYSTEM);
    pool.clear();
}

} // namespace

int main(int argc, char **argv)
{
    Check c = {"C19", 19, gen, exec, nullptr};
    return harness_main(argc, argv, c);
}
