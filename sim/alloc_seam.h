// Allocator seam: the harness owns global operator new/delete.
//   * reuse policy chosen per run (system / immediate LIFO per size class /
//     delayed FIFO / seeded random): decides WHEN an address is handed out
//     again, which is environment nondeterminism for address-keyed code;
//   * memory budget (single request and total live bytes): exceeding it throws
//     std::bad_alloc, as a finite machine does;
//   * ledger (live blocks / bytes, reuse count) for conservation checks;
//   * cached free blocks are ASan-poisoned so use-after-free stays visible.
#pragma once
#include <cstddef>
#include <cstdint>

namespace simalloc
{
enum Policy { SYSTEM = 0, LIFO = 1, FIFO = 2, RANDOM = 3 };

struct Stats {
    uint64_t allocs = 0, frees = 0, reuses = 0, budget_failures = 0,
             injected_failures = 0;
    int64_t live_blocks = 0, live_bytes = 0;
};

void configure(Policy p, uint64_t seed, size_t single_cap, size_t total_cap);
// fail the n-th allocation from now (0 = never); one-shot
void fail_after(uint64_t n);
void deactivate(); // back to SYSTEM, no budget; drops cached blocks
Stats stats();
void reset_counters(); // keeps live_* (ledger), zeroes event counters
const char *policy_name(Policy p);
} // namespace simalloc
