#include "rand_seam.h"
#include <cstdlib>

extern "C" int __wrap_rand(void)
{
    simrand::State &s = simrand::state();
    s.draws++;
    s.total_draws++;
    if (s.budget && s.draws > s.budget)
        throw simrand::BudgetExceeded();
    if (s.pos < s.list.size())
        return s.list[s.pos++] & 0x7fffffff;
    // list exhausted: deterministic continuation (xorshift), never constant
    uint64_t &x = s.fallback;
    x ^= x << 13;
    x ^= x >> 7;
    x ^= x << 17;
    return (int)((x >> 20) & 0x7fffffff);
}
