// C23 (factorisation clause): GF(p)[x] factorisation is correct for EVERY
// random choice the algorithms make.
//
// gf_edf_zassenhaus / gf_edf_shoup draw random polynomials from mp_randstate,
// seeded by std::rand(). The randomness seam replays the same input under many
// seed lists. Oracle (independent mod-p arithmetic, no SymEngine code): the
// factors multiply back, are monic, irreducible (Rabin test) and distinct, and
// - factorisation over a field being unique - the factor set is identical
// under every seed list and for gf_zassenhaus, gf_shoup and gf_factor.
// Bounded liveness: every call finishes within a budget of rand() draws.
#include "../sim/harness.h"
#include "../sim/rand_seam.h"
#include <symengine/fields.h>
#include <algorithm>

using namespace sim;
using namespace SymEngine;

SIM_SANITIZER_DEFAULTS()

namespace
{
// ---------------- independent arithmetic in GF(p)[x] ------------------------
typedef std::vector<uint32_t> Poly; // low -> high, normalised (no leading 0)

void norm(Poly &a)
{
    while (!a.empty() && a.back() == 0)
        a.pop_back();
}
int deg(const Poly &a)
{
    return (int)a.size() - 1;
}
uint32_t inv_mod(uint32_t a, uint32_t p)
{
    int64_t t = 0, nt = 1, r = p, nr = a % p;
    while (nr) {
        int64_t q = r / nr;
        int64_t x = t - q * nt;
        t = nt;
        nt = x;
        x = r - q * nr;
        r = nr;
        nr = x;
    }
    return (uint32_t)((t % p + p) % p);
}
Poly mul(const Poly &a, const Poly &b, uint32_t p)
{
    if (a.empty() || b.empty())
        return Poly();
    Poly r(a.size() + b.size() - 1, 0);
    for (size_t i = 0; i < a.size(); i++)
        for (size_t j = 0; j < b.size(); j++)
            r[i + j] = (uint32_t)((r[i + j] + (uint64_t)a[i] * b[j]) % p);
    norm(r);
    return r;
}
Poly sub(const Poly &a, const Poly &b, uint32_t p)
{
    Poly r(std::max(a.size(), b.size()), 0);
    for (size_t i = 0; i < r.size(); i++) {
        uint32_t x = i < a.size() ? a[i] : 0, y = i < b.size() ? b[i] : 0;
        r[i] = (x + p - y) % p;
    }
    norm(r);
    return r;
}
Poly rem(Poly a, const Poly &b, uint32_t p)
{
    norm(a);
    uint32_t il = inv_mod(b.back(), p);
    while (deg(a) >= deg(b) && !a.empty()) {
        uint32_t c = (uint32_t)((uint64_t)a.back() * il % p);
        size_t sh = a.size() - b.size();
        for (size_t i = 0; i < b.size(); i++)
            a[sh + i] = (uint32_t)((a[sh + i] + (uint64_t)(p - c) * b[i]) % p);
        norm(a);
    }
    return a;
}
Poly gcd(Poly a, Poly b, uint32_t p)
{
    norm(a);
    norm(b);
    while (!b.empty()) {
        Poly r = rem(a, b, p);
        a = b;
        b = r;
    }
    if (!a.empty()) { // monic
        uint32_t il = inv_mod(a.back(), p);
        for (auto &c : a)
            c = (uint32_t)((uint64_t)c * il % p);
    }
    return a;
}
Poly powmod_x_p(const Poly &base, uint64_t e, const Poly &f, uint32_t p)
{
    Poly r = {1}, b = rem(base, f, p);
    while (e) {
        if (e & 1)
            r = rem(mul(r, b, p), f, p);
        b = rem(mul(b, b, p), f, p);
        e >>= 1;
    }
    return r;
}
// Rabin's irreducibility test
bool irreducible(const Poly &f, uint32_t p)
{
    int n = deg(f);
    if (n <= 0)
        return false;
    if (n == 1)
        return true;
    Poly x = {0, 1};
    // h_k = x^(p^k) mod f
    std::vector<Poly> h(n + 1);
    h[0] = rem(x, f, p);
    for (int k = 1; k <= n; k++)
        h[k] = powmod_x_p(h[k - 1], p, f, p);
    if (!(sub(h[n], rem(x, f, p), p).empty()))
        return false;
    for (int q = 2; q <= n; q++) {
        if (n % q)
            continue;
        bool prime = true;
        for (int d = 2; d * d <= q; d++)
            if (q % d == 0)
                prime = false;
        if (!prime)
            continue;
        Poly g = gcd(f, sub(h[n / q], rem(x, f, p), p), p);
        if (deg(g) != 0)
            return false;
    }
    return true;
}

const uint32_t PRIMES[] = {2,  2,  3,  3,  5,  7,  11,  13,  17,  19, 23,
                           29, 31, 37, 41, 43, 47, 53,  59,  61,  67, 71,
                           73, 79, 83, 89, 97, 101, 127, 151, 193, 199};

Json poly_json(const Poly &a)
{
    Json j = Json::array();
    for (auto c : a)
        j.push(Json((long long)c));
    return j;
}
Poly poly_from(const Json &j, uint32_t p)
{
    Poly a;
    for (size_t i = 0; i < j.size(); i++)
        a.push_back((uint32_t)(((j[i].as_int() % p) + p) % p));
    norm(a);
    return a;
}
Poly random_monic(Rng &g, int d, uint32_t p)
{
    Poly a(d + 1);
    for (int i = 0; i < d; i++)
        a[i] = (uint32_t)g.below(p);
    a[d] = 1;
    return a;
}
Poly random_irreducible(Rng &g, int d, uint32_t p)
{
    for (int t = 0; t < 2000; t++) {
        Poly a = random_monic(g, d, p);
        if (irreducible(a, p))
            return a;
    }
    return Poly{(uint32_t)g.below(p), 1};
}

Json gen(uint64_t seed, const std::string &tier)
{
    Rng g(seed);
    bool thorough = tier == "thorough";
    Json plan = Json::object();
    uint32_t p = PRIMES[g.below(sizeof PRIMES / sizeof PRIMES[0])];
    Json cfg = Json::object();
    cfg["p"] = (long long)p;
    unsigned nseeds = thorough ? 8 + (unsigned)g.below(57) : 8 + (unsigned)g.below(17);
    cfg["nseeds"] = nseeds;
    plan["config"] = cfg;
    Json ops = Json::array();
    unsigned nops = 1 + (unsigned)g.below(4);
    // p = 2: the trace loop of gf_edf_zassenhaus runs 2^(deg-1) squarings
    int maxdeg = p == 2 ? 8 : 12;
    for (unsigned k = 0; k < nops; k++) {
        Json o = Json::object();
        o["op"] = "factor";
        Poly f = {1};
        bool squarefree = true;
        if (g.chance(3, 4)) {
            // product of known irreducibles: equal-degree splitting has work
            int budget = 2 + (int)g.below(maxdeg - 1);
            std::vector<Poly> used;
            bool same_degree = g.chance(1, 2);
            int d0 = 1 + (int)g.below(3);
            while (budget > 0) {
                int d = same_degree ? d0 : 1 + (int)g.below(std::min(4, budget));
                if (d > budget)
                    break;
                Poly q = random_irreducible(g, d, p);
                unsigned m = g.chance(1, 5) ? 2 + (unsigned)g.below(2) : 1;
                if (std::find(used.begin(), used.end(), q) != used.end())
                    m = 1, squarefree = false;
                for (unsigned i = 0; i < m && budget >= d; i++) {
                    f = mul(f, q, p);
                    budget -= d;
                    if (i > 0)
                        squarefree = false;
                }
                used.push_back(q);
            }
        } else {
            f = random_monic(g, 1 + (int)g.below(maxdeg), p);
            squarefree = false; // unknown
        }
        uint32_t lc = g.chance(1, 3) ? 1 + (uint32_t)g.below(p - 1) : 1;
        Poly fl = f;
        for (auto &c : fl)
            c = (uint32_t)((uint64_t)c * lc % p);
        o["f"] = poly_json(fl);
        // which entry points: gf_factor always; the square-free-input ones
        // only when the input is known monic and square-free
        o["sqf_monic"] = squarefree && lc == 1;
        Json seeds = Json::array();
        for (unsigned s = 0; s < nseeds; s++) {
            Json l = Json::array();
            unsigned n = 1 + (unsigned)g.below(6);
            for (unsigned i = 0; i < n; i++) {
                int v;
                switch (g.below(12)) {
                    case 0:
                        v = 0;
                        break;
                    case 1:
                        v = 1;
                        break;
                    case 2:
                        v = 0x7fffffff;
                        break;
                    default:
                        v = (int)(g.next() & 0x7fffffff);
                }
                l.push(Json(v));
            }
            seeds.push(l);
        }
        o["seeds"] = seeds;
        ops.push(o);
    }
    plan["ops"] = ops;
    return plan;
}

// ---------------------------------------------------------------------------
Poly from_gf(const GaloisFieldDict &d, uint32_t p)
{
    Poly a;
    for (auto &c : d.dict_)
        a.push_back((uint32_t)mp_get_ui(c));
    norm(a);
    return a;
}
std::string show(const Poly &a)
{
    std::string s = "[";
    for (size_t i = 0; i < a.size(); i++)
        s += (i ? "," : "") + std::to_string(a[i]);
    return s + "]";
}

typedef std::vector<std::pair<Poly, unsigned>> Factors;

std::string show(const Factors &fs)
{
    std::string s;
    for (auto &f : fs)
        s += show(f.first) + "^" + std::to_string(f.second) + " ";
    return s;
}

// returns "" if (lc, fs) is THE factorisation of f
std::string check_factorisation(const Poly &f, uint32_t lc, Factors fs, uint32_t p)
{
    Poly prod = {lc % p};
    norm(prod);
    std::sort(fs.begin(), fs.end());
    for (size_t i = 0; i < fs.size(); i++) {
        const Poly &q = fs[i].first;
        if (q.empty() || q.back() != 1)
            return "factor " + show(q) + " is not monic";
        if (deg(q) < 1)
            return "constant factor " + show(q);
        if (i && fs[i - 1].first == q)
            return "factor " + show(q) + " listed twice";
        if (fs[i].second < 1)
            return "zero multiplicity";
        if (!irreducible(q, p))
            return "factor " + show(q) + " is reducible";
        for (unsigned e = 0; e < fs[i].second; e++)
            prod = mul(prod, q, p);
    }
    if (prod != f)
        return "factors multiply to " + show(prod) + ", not to the input";
    return "";
}

void exec(Run &run)
{
    uint32_t p = (uint32_t)run.plan.at("config").geti("p", 3);
    bool isp = p >= 2;
    for (uint32_t d = 2; d * d <= p; d++)
        if (p % d == 0)
            isp = false;
    if (!isp)
        p = 3;
    integer_class mod((unsigned long)p);
    const Json &ops = run.plan.at("ops");
    unsigned judged = 0;
    for (size_t k = 0; k < ops.size() && !run.failed(); k++) {
        const Json &o = ops[k];
        run.steps++;
        Poly f = poly_from(o.at("f"), p);
        if (deg(f) < 1 || deg(f) > 14) {
            run.ev("skip degenerate input");
            continue;
        }
        std::vector<integer_class> v;
        for (auto c : f)
            v.push_back(integer_class((unsigned long)c));
        GaloisFieldDict gf = GaloisFieldDict::from_vec(v, mod);
        bool sqf_monic = o.at("sqf_monic").as_bool() && f.back() == 1;
        if (sqf_monic) { // the plan says so; believe only what we can check
            Poly df(f.size() - 1);
            for (size_t i = 1; i < f.size(); i++)
                df[i - 1] = (uint32_t)((uint64_t)f[i] * i % p);
            norm(df);
            if (df.empty() || deg(gcd(f, df, p)) != 0)
                sqf_monic = false;
        }
        const Json &seeds = o.at("seeds");
        Factors reference;
        bool have_ref = false;
        std::string ref_from;
        run.ev("factor p=" + std::to_string(p) + " f=" + show(f));
        for (size_t s = 0; s <= seeds.size() && !run.failed(); s++) {
            std::vector<int> list;
            if (s < seeds.size())
                for (size_t i = 0; i < seeds[s].size(); i++)
                    list.push_back((int)seeds[s][i].as_int());
            else
                list = {12345}; // one more list, always the same
            static const char *algos[] = {"gf_factor", "gf_zassenhaus", "gf_shoup"};
            for (int a = 0; a < (sqf_monic ? 3 : 1) && !run.failed(); a++) {
                simrand::set(list, 20000);
                Factors got;
                uint32_t lc = 1;
                try {
                    if (a == 0) {
                        auto r = gf.gf_factor();
                        lc = (uint32_t)mp_get_ui(r.first);
                        for (auto &q : r.second)
                            got.emplace_back(from_gf(q.first, p), q.second);
                    } else {
                        auto r = a == 1 ? gf.gf_zassenhaus() : gf.gf_shoup();
                        for (auto &q : r)
                            got.emplace_back(from_gf(q, p), 1u);
                    }
                } catch (const simrand::BudgetExceeded &) {
                    run.fail(std::string("no-progress:") + algos[a],
                             std::string(algos[a]) + " did not finish within 20000 "
                                 "rand() draws on " + show(f) + " mod "
                                 + std::to_string(p));
                    break;
                } catch (const SymEngineException &e) {
                    run.fail(std::string("exception:") + algos[a],
                             std::string(algos[a]) + " threw " + e.what() + " on "
                                 + show(f) + " mod " + std::to_string(p));
                    break;
                }
                uint64_t draws = simrand::state().draws;
                run.count("rand_draws", draws);
                run.fault("seed_list_replayed");
                if (draws > 0)
                    run.probe("random_splitting_used");
                if (draws > list.size())
                    run.probe("seed_list_exhausted_continued");
                std::sort(got.begin(), got.end());
                std::string why = check_factorisation(f, lc, got, p);
                if (!why.empty()) {
                    run.fail(std::string("wrong-factorisation:") + algos[a],
                             std::string(algos[a]) + "(" + show(f) + " mod "
                                 + std::to_string(p) + ") = " + std::to_string(lc)
                                 + " * " + show(got) + ": " + why);
                    break;
                }
                if (!have_ref) {
                    reference = got;
                    have_ref = true;
                    ref_from = std::string(algos[a]) + " seeds#" + std::to_string(s);
                    run.ev("  = " + std::to_string(lc) + " * " + show(got));
                } else if (got != reference) {
                    run.fail(std::string("seed-dependent-result:") + algos[a],
                             std::string(algos[a]) + " under seed list #"
                                 + std::to_string(s) + " gives " + show(got) + " but "
                                 + ref_from + " gave " + show(reference));
                    break;
                }
                judged++;
            }
        }
        if (p == 2)
            run.probe("characteristic_2_branch");
        if (reference.size() >= 2) {
            bool eqdeg = false;
            for (size_t i = 1; i < reference.size(); i++)
                if (deg(reference[i].first) == deg(reference[i - 1].first))
                    eqdeg = true;
            if (eqdeg)
                run.probe("equal_degree_factors_present");
        }
    }
    simrand::set({}, 0);
    run.nontrivial = judged >= 4 && run.counters.count("probe.random_splitting_used");
}

} // namespace

int main(int argc, char **argv)
{
    Check c = {"C23", 23, gen, exec, nullptr};
    return harness_main(argc, argv, c);
}
