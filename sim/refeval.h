// Independent reference evaluator: the value of an expression tree at a point,
// computed by a plain recursive walk over get_args() with libm, written from
// the mathematical definitions (no SymEngine evaluation / substitution code).
// Throws RefUnsupported for node kinds it does not know.
#pragma once
#include <symengine/basic.h>
#include <symengine/visitor.h>
#include <symengine/functions.h>
#include <symengine/logic.h>
#include <symengine/sets.h>
#include <symengine/complex.h>
#include <symengine/complex_double.h>
#include <cmath>
#include <complex>
#include <map>
#include <stdexcept>

namespace simref
{
using namespace SymEngine;

struct RefUnsupported : std::runtime_error {
    using std::runtime_error::runtime_error;
};

inline double const_value(const Constant &c)
{
    const std::string &n = c.get_name();
    if (n == "pi")
        return 3.14159265358979323846264338327950288;
    if (n == "E")
        return 2.71828182845904523536028747135266250;
    if (n == "EulerGamma")
        return 0.57721566490153286060651209008240243;
    if (n == "Catalan")
        return 0.91596559417721901505460351493238411;
    if (n == "GoldenRatio")
        return 1.61803398874989484820458683436563811;
    throw RefUnsupported("constant " + n);
}

typedef std::map<std::string, double> RealEnv;
typedef std::map<std::string, std::complex<double>> ComplexEnv;

inline double reval(const Basic &b, const RealEnv &env);

inline double arg0(const Basic &b, const RealEnv &env, size_t k = 0)
{
    return reval(*b.get_args()[k], env);
}

inline double reval(const Basic &b, const RealEnv &env)
{
    switch (b.get_type_code()) {
        case SYMENGINE_INTEGER:
            return mp_get_d(down_cast<const Integer &>(b).as_integer_class());
        case SYMENGINE_RATIONAL:
            return mp_get_d(down_cast<const Rational &>(b).as_rational_class());
        case SYMENGINE_REAL_DOUBLE:
            return down_cast<const RealDouble &>(b).i;
        case SYMENGINE_SYMBOL: {
            auto it = env.find(down_cast<const Symbol &>(b).get_name());
            if (it == env.end())
                throw RefUnsupported("free symbol");
            return it->second;
        }
        case SYMENGINE_CONSTANT:
            return const_value(down_cast<const Constant &>(b));
        case SYMENGINE_INFTY: {
            const Infty &i = down_cast<const Infty &>(b);
            if (i.is_positive_infinity())
                return INFINITY;
            if (i.is_negative_infinity())
                return -INFINITY;
            throw RefUnsupported("complex infinity");
        }
        case SYMENGINE_NOT_A_NUMBER:
            return NAN;
        case SYMENGINE_ADD: {
            double s = 0;
            for (auto &a : b.get_args())
                s += reval(*a, env);
            return s;
        }
        case SYMENGINE_MUL: {
            double s = 1;
            for (auto &a : b.get_args())
                s *= reval(*a, env);
            return s;
        }
        case SYMENGINE_POW: {
            const Pow &p = down_cast<const Pow &>(b);
            if (eq(*p.get_base(), *E))
                return std::exp(reval(*p.get_exp(), env));
            return std::pow(reval(*p.get_base(), env), reval(*p.get_exp(), env));
        }
        case SYMENGINE_LOG:
            return std::log(arg0(b, env));
        case SYMENGINE_SIN:
            return std::sin(arg0(b, env));
        case SYMENGINE_COS:
            return std::cos(arg0(b, env));
        case SYMENGINE_TAN:
            return std::tan(arg0(b, env));
        case SYMENGINE_COT:
            return std::cos(arg0(b, env)) / std::sin(arg0(b, env));
        case SYMENGINE_CSC:
            return 1.0 / std::sin(arg0(b, env));
        case SYMENGINE_SEC:
            return 1.0 / std::cos(arg0(b, env));
        case SYMENGINE_ASIN:
            return std::asin(arg0(b, env));
        case SYMENGINE_ACOS:
            return std::acos(arg0(b, env));
        case SYMENGINE_ASEC:
            return std::acos(1.0 / arg0(b, env));
        case SYMENGINE_ACSC:
            return std::asin(1.0 / arg0(b, env));
        case SYMENGINE_ATAN:
            return std::atan(arg0(b, env));
        case SYMENGINE_ACOT:
            return std::atan(1.0 / arg0(b, env));
        case SYMENGINE_ATAN2:
            return std::atan2(arg0(b, env, 0), arg0(b, env, 1));
        case SYMENGINE_SINH:
            return std::sinh(arg0(b, env));
        case SYMENGINE_CSCH:
            return 1.0 / std::sinh(arg0(b, env));
        case SYMENGINE_COSH:
            return std::cosh(arg0(b, env));
        case SYMENGINE_SECH:
            return 1.0 / std::cosh(arg0(b, env));
        case SYMENGINE_TANH:
            return std::tanh(arg0(b, env));
        case SYMENGINE_COTH:
            return 1.0 / std::tanh(arg0(b, env)); // cosh/sinh overflows to inf/inf beyond |x| = 710
        case SYMENGINE_ASINH:
            return std::asinh(arg0(b, env));
        case SYMENGINE_ACSCH:
            return std::asinh(1.0 / arg0(b, env));
        case SYMENGINE_ACOSH:
            return std::acosh(arg0(b, env));
        case SYMENGINE_ATANH:
            return std::atanh(arg0(b, env));
        case SYMENGINE_ACOTH:
            return std::atanh(1.0 / arg0(b, env));
        case SYMENGINE_ASECH:
            return std::acosh(1.0 / arg0(b, env));
        case SYMENGINE_ERF:
            return std::erf(arg0(b, env));
        case SYMENGINE_ERFC:
            return std::erfc(arg0(b, env));
        case SYMENGINE_GAMMA:
            return std::tgamma(arg0(b, env));
        case SYMENGINE_LOGGAMMA:
            return std::lgamma(arg0(b, env));
        case SYMENGINE_ABS:
            return std::fabs(arg0(b, env));
        case SYMENGINE_SIGN: {
            double v = arg0(b, env);
            return v == 0 ? 0.0 : (v < 0 ? -1.0 : 1.0);
        }
        case SYMENGINE_FLOOR:
            return std::floor(arg0(b, env));
        case SYMENGINE_CEILING:
            return std::ceil(arg0(b, env));
        case SYMENGINE_TRUNCATE:
            return std::trunc(arg0(b, env));
        case SYMENGINE_MAX: {
            auto args = b.get_args();
            double m = reval(*args[0], env);
            for (auto &a : args)
                m = std::max(m, reval(*a, env));
            return m;
        }
        case SYMENGINE_MIN: {
            auto args = b.get_args();
            double m = reval(*args[0], env);
            for (auto &a : args)
                m = std::min(m, reval(*a, env));
            return m;
        }
        case SYMENGINE_UNEVALUATED_EXPR:
            return arg0(b, env);
        case SYMENGINE_BOOLEAN_ATOM:
            return down_cast<const BooleanAtom &>(b).get_val() ? 1.0 : 0.0;
        case SYMENGINE_EQUALITY:
        case SYMENGINE_UNEQUALITY:
        case SYMENGINE_LESSTHAN:
        case SYMENGINE_STRICTLESSTHAN: {
            double l = arg0(b, env, 0), r = arg0(b, env, 1);
            // a comparison hides a non-finite operand behind a clean 0/1:
            // nothing is judged there (the two sides may have reached
            // infinity or NaN by different, equally legitimate routes)
            if (!std::isfinite(l) || !std::isfinite(r))
                throw RefUnsupported("comparison of a non-finite value");
            switch (b.get_type_code()) {
                case SYMENGINE_EQUALITY:
                    return l == r ? 1.0 : 0.0;
                case SYMENGINE_UNEQUALITY:
                    return l != r ? 1.0 : 0.0;
                case SYMENGINE_LESSTHAN:
                    return l <= r ? 1.0 : 0.0;
                default:
                    return l < r ? 1.0 : 0.0;
            }
        }
        case SYMENGINE_NOT:
            return arg0(b, env) != 0.0 ? 0.0 : 1.0;
        case SYMENGINE_AND: {
            bool r = true;
            for (auto &a : b.get_args())
                r = r && (reval(*a, env) != 0.0);
            return r ? 1.0 : 0.0;
        }
        case SYMENGINE_OR: {
            bool r = false;
            for (auto &a : b.get_args())
                r = r || (reval(*a, env) != 0.0);
            return r ? 1.0 : 0.0;
        }
        case SYMENGINE_XOR: {
            bool r = false;
            for (auto &a : b.get_args())
                r = r != (reval(*a, env) != 0.0);
            return r ? 1.0 : 0.0;
        }
        case SYMENGINE_CONTAINS: {
            const Contains &c = down_cast<const Contains &>(b);
            if (!is_a<Interval>(*c.get_set()))
                throw RefUnsupported("Contains of a non-interval");
            const Interval &iv = down_cast<const Interval &>(*c.get_set());
            double v = reval(*c.get_expr(), env);
            double lo = reval(*iv.get_start(), env), hi = reval(*iv.get_end(), env);
            if (std::isnan(v))
                return 0.0;
            bool l = iv.get_left_open() ? (lo < v) : (lo <= v);
            bool r = iv.get_right_open() ? (v < hi) : (v <= hi);
            if (lo == -INFINITY)
                l = true;
            if (hi == INFINITY)
                r = true;
            return (l && r) ? 1.0 : 0.0;
        }
        case SYMENGINE_PIECEWISE: {
            const Piecewise &pw = down_cast<const Piecewise &>(b);
            for (auto &p : pw.get_vec())
                if (reval(*p.second, env) != 0.0)
                    return reval(*p.first, env);
            throw RefUnsupported("piecewise without a true branch");
        }
        default:
            throw RefUnsupported("node kind " + type_code_name(b.get_type_code()));
    }
}

typedef std::complex<double> cd;
// Arguments that lie on (or within 1e-7 of) a branch cut: the value there
// depends on the sign of a zero, which different but equally correct ways of
// computing the argument do not agree on. The harness judges no value at such
// a point (a constant subexpression on a cut does not move when the inputs
// are perturbed, so the conditioning test alone does not see it).
inline unsigned &cut_hits()
{
    static unsigned n = 0;
    return n;
}
inline void note_cut(bool on_cut)
{
    if (on_cut)
        ++cut_hits();
}
inline bool tiny(double v, const cd &z)
{
    return std::fabs(v) <= 1e-7 * std::max(1.0, std::abs(z));
}
inline cd ceval(const Basic &b, const ComplexEnv &env);
inline cd carg0(const Basic &b, const ComplexEnv &env, size_t k = 0)
{
    return ceval(*b.get_args()[k], env);
}
inline cd ceval(const Basic &b, const ComplexEnv &env)
{
    const cd one(1.0, 0.0);
    switch (b.get_type_code()) {
        case SYMENGINE_INTEGER:
            return mp_get_d(down_cast<const Integer &>(b).as_integer_class());
        case SYMENGINE_RATIONAL:
            return mp_get_d(down_cast<const Rational &>(b).as_rational_class());
        case SYMENGINE_REAL_DOUBLE:
            return down_cast<const RealDouble &>(b).i;
        case SYMENGINE_COMPLEX: {
            const Complex &c = down_cast<const Complex &>(b);
            return cd(mp_get_d(c.real_), mp_get_d(c.imaginary_));
        }
        case SYMENGINE_COMPLEX_DOUBLE:
            return down_cast<const ComplexDouble &>(b).i;
        case SYMENGINE_SYMBOL: {
            auto it = env.find(down_cast<const Symbol &>(b).get_name());
            if (it == env.end())
                throw RefUnsupported("free symbol");
            return it->second;
        }
        case SYMENGINE_CONSTANT:
            return const_value(down_cast<const Constant &>(b));
        case SYMENGINE_ADD: {
            cd s = 0;
            for (auto &a : b.get_args())
                s += ceval(*a, env);
            return s;
        }
        case SYMENGINE_MUL: {
            cd s = 1;
            for (auto &a : b.get_args())
                s *= ceval(*a, env);
            return s;
        }
        case SYMENGINE_POW: {
            const Pow &p = down_cast<const Pow &>(b);
            if (eq(*p.get_base(), *E))
                return std::exp(ceval(*p.get_exp(), env));
            {
                cd bs = ceval(*p.get_base(), env), ex = ceval(*p.get_exp(), env);
                bool int_exp = ex.imag() == 0.0 && ex.real() == std::floor(ex.real());
                note_cut(!int_exp && tiny(bs.imag(), bs) && bs.real() <= 0.0);
                return std::pow(bs, ex);
            }
        }
        case SYMENGINE_LOG: {
            cd z = carg0(b, env);
            note_cut(tiny(z.imag(), z) && z.real() <= 0.0);
            return std::log(z);
        }
        case SYMENGINE_SIN:
            return std::sin(carg0(b, env));
        case SYMENGINE_COS:
            return std::cos(carg0(b, env));
        case SYMENGINE_TAN:
            return std::tan(carg0(b, env));
        case SYMENGINE_COT:
            return one / std::tan(carg0(b, env));
        case SYMENGINE_CSC:
            return one / std::sin(carg0(b, env));
        case SYMENGINE_SEC:
            return one / std::cos(carg0(b, env));
        case SYMENGINE_ASIN:
        case SYMENGINE_ACOS: {
            cd z = carg0(b, env);
            note_cut(tiny(z.imag(), z) && std::fabs(z.real()) >= 1.0 - 1e-7);
            return b.get_type_code() == SYMENGINE_ASIN ? std::asin(z) : std::acos(z);
        }
        case SYMENGINE_ATAN: {
            cd z = carg0(b, env);
            note_cut(tiny(z.real(), z) && std::fabs(z.imag()) >= 1.0 - 1e-7);
            return std::atan(z);
        }
        case SYMENGINE_SINH:
            return std::sinh(carg0(b, env));
        case SYMENGINE_COSH:
            return std::cosh(carg0(b, env));
        case SYMENGINE_TANH:
            return std::tanh(carg0(b, env));
        case SYMENGINE_COTH:
            return one / std::tanh(carg0(b, env));
        case SYMENGINE_ASINH: {
            cd z = carg0(b, env);
            note_cut(tiny(z.real(), z) && std::fabs(z.imag()) >= 1.0 - 1e-7);
            return std::asinh(z);
        }
        case SYMENGINE_ACOSH: {
            cd z = carg0(b, env);
            note_cut(tiny(z.imag(), z) && z.real() <= 1.0 + 1e-7);
            return std::acosh(z);
        }
        case SYMENGINE_ATANH: {
            cd z = carg0(b, env);
            note_cut(tiny(z.imag(), z) && std::fabs(z.real()) >= 1.0 - 1e-7);
            return std::atanh(z);
        }
        case SYMENGINE_ABS:
            return std::abs(carg0(b, env));
        case SYMENGINE_UNEVALUATED_EXPR:
            return carg0(b, env);
        default:
            throw RefUnsupported("node kind " + type_code_name(b.get_type_code()));
    }
}

} // namespace simref
