"""Per-check configuration of the orchestrator."""

REAL_COMMON = ['libsymengine.a built from /repo working tree (all SymEngine code)', 'GMP', 'libstdc++',
               'cereal (bundled)']

CHECKS = {}

CHECKS['C33'] = dict(
    variants=['asan'],
    targets=['build/bin/c33'],
    binaries=['build/bin/c33'],
    quick=dict(runs=3200, workers=16, chunk=10, wall_cap=600),
    thorough=dict(runs=60000, workers=16, chunk=10, wall_cap=3000),
    run_timeout=60,      # a run takes a second or two; a stuck next_prime() is a violation
    exec_timeout=45,
    shrink_ints=['n', 'limit'],
    expected_probes=['iterator_stepped_after_cache_cleared', 'gen_crosses_segment_boundary',
                     'size_changed_with_warm_cache', 'bounded_iterator_exhausted', 'iterator_copy_assigned', 'allocation_failed_inside_generate_primes', 'allocation_failed_inside_next_prime'],
    rule=('one run = a seeded interleaving (4-64 steps) of 1-5 iterator clients, generate_primes callers, '
          'clear/set_clear/set_sieve_size and library clients (primepi, prime_factors, '
          'prime_factor_multiplicities, factor_trial_division, mobius) on the process-global sieve, checked '
          'step by step against an independent prime table and a per-iterator model; limits biased to segment '
          'boundaries of the sieve sizes in play. A run is non-trivial if an iterator was stepped after the '
          'shared cache was cleared below its index, or a generate_primes crossed a segment boundary, or the '
          'sieve size changed during the run; distinct = distinct event-log hash.'),
    state_measure='(sieve size, clear flag, log4 bucket of cached primes [model], live iterators, stale iterator present, log4 bucket of max iterator index)',
    components=dict(real=REAL_COMMON + ['Sieve, Sieve::iterator, ntheory sieve clients'],
                    stub=['order in which logical clients touch the global sieve (seeded plan)',
                          'reference prime table (harness sieve of Eratosthenes)']),
    assumptions=['ASan/UBSan with libstdc++ vector annotations report every out-of-bounds access executed',
                 'limits <= 3e6 (thorough) / 6e5 (quick); sieve sizes {1,2,3,4,8,16,32,64}; size 0 excluded as invalid',
                 'a bounded iterator may return cached primes beyond its limit or limit+1 once exhausted (callers test p <= limit)',
                 'sampling, not proof'],
)

CHECKS['C25'] = dict(
    variants=['asan'],
    targets=['build/bin/c25'],
    binaries=['build/bin/c25'],
    quick=dict(runs=60000, workers=16, chunk=25, wall_cap=600),
    thorough=dict(runs=300000, workers=16, chunk=25, wall_cap=3000),
    run_timeout=60,
    exec_timeout=60,
    shrink_ints=['i', 'j', 'v', 'rows', 'cols'],
    shrink_keys=['ops', 'entries', 'exprs'],
    expected_probes=['set_insert_front', 'set_insert_middle', 'set_insert_back', 'set_overwrite', 'set_delete',
                     'set_delete_last_in_row', 'set_zero_on_absent', 'set_insert_empty_row', 'coo_with_duplicates',
                     'binop_entry_cancelled', 'matmat_entry_cancelled', 'matmat_B_wider_than_A',
                     'unary_op_on_non_square', 'oversized_entries_replaced', 'result_object_reused'],
    rule=('one run = a seeded history (10-170 steps) over a pool of 1-4 CSR matrices (<=8x8), each in lock step with a '
          'dense reference: set/get, from_coo with duplicate and cancelling coordinates, transpose (both forms), '
          'conjugate, conjugate_transpose, csr_binop_csr_canonical add/sub/mul, elementwise_mul_matrix, two-pass '
          'csr_matmat product, csr_scale_rows/columns, csr_diagonal, jacobian (both forms), eq, is_real and the '
          'NotImplemented members; after every step an independent canonical-format check of the raw arrays, '
          'is_canonical(), and element-wise comparison with the dense result. Non-trivial = at least 3 '
          'structure-changing steps on non-empty rows/matrices; distinct = distinct event-log hash.'),
    state_measure='distinct (rows, cols, row pointers, column indices) sparsity patterns of pool members after a step',
    components=dict(real=REAL_COMMON + ['CSRMatrix and csr_* functions', 'DenseMatrix (as reference)'],
                    stub=['history of operations (seeded plan)', 'independent canonical-format checker in the harness']),
    assumptions=['DenseMatrix operations are the reference (C24 not re-verified here)',
                 'values compared by eq or expand(a-b)==0; entries are numbers and monomials',
                 'csr_matmat_pass2 result is compared by value only (it neither sorts columns nor shrinks arrays, as in SciPy)',
                 'entries of pool members are kept below 40 expression nodes: a result with a larger entry is checked and then replaced (CSR and dense alike) by a matrix with the same sparsity pattern and small values, so chains of symbolic products cannot grow without bound (they took minutes per run and tripped the watchdog before)',
                 'matrices up to 8x8; ASan/UBSan report every memory error executed', 'sampling, not proof'],
)

CHECKS['C13'] = dict(
    variants=['asan'],
    targets=['build/bin/c13'],
    binaries=['build/bin/c13'],
    quick=dict(runs=5000, workers=16, chunk=20, wall_cap=600),
    thorough=dict(runs=120000, workers=16, chunk=20, wall_cap=3000),
    run_timeout=60,
    shrink_keys=['ops', 'outputs', 'pool'],
    expected_probes=['reinit', 'reinit_cse_on_to_off', 'reinit_cse_off_to_on', 'reinit_fewer_outputs',
                     'reinit_more_outputs', 'failed_init', 'reinit_after_failed_init_or_move', 'moved',
                     'cse_on_off_compared', 'compared_with_reference_evaluation', 'input_named_like_cse_temporary', 'call_at_the_previous_point_again', 'alloc_policy_lifo', 'value_oracle_skipped_on_branch_cut'],
    rule=('one run = a seeded history (5-55 steps) on 1-3 long-lived LambdaRealDoubleVisitor / '
          'LambdaComplexDoubleVisitor objects: init with 1-4 inputs and 1-7 outputs generated over all node kinds '
          'the visitors accept (sharing between outputs so CSE has work), re-init with more/fewer outputs and the CSE '
          'flag flipped, failing inits (unknown symbol, unsupported node), inputs named like cse() temporaries (x0, x1, ...; used or unused by the outputs), calls at nice and random points, '
          'move-construct/assign; steps of different objects interleave. Non-trivial = at least one successful '
          're-initialisation and >=2 judged calls; distinct = distinct event-log hash.'),
    state_measure='not tracked (distinct event logs are the measure)',
    components=dict(real=REAL_COMMON + ['LambdaDoubleVisitor templates (header code compiled into the harness)', 'cse()', 'libm'],
                    stub=['history of init/call/move operations (seeded plan)', 'independent recursive reference evaluator (sim/refeval.h)']),
    assumptions=['exact-equality oracle: a fresh evaluator initialised with the same arguments builds the same closures, so results must be bit-identical',
                 'value oracle (CSE on/off, harness reference evaluator) applied only where every subexpression is finite and 4 perturbations of 1e-9 (complex: also off the real axis) change the result by < 1e-6 relative; tolerance 1e-6',
                 'the state left by a failed init is not judged until the next successful init',
                 'expressions <= depth 4; LLVM evaluators are C14, not covered', 'sampling, not proof'],
)

CHECKS['C18'] = dict(
    variants=['asan'],
    targets=['build/bin/c18'],
    binaries=['build/bin/c18'],
    quick=dict(runs=60000, workers=16, chunk=20, wall_cap=600),
    thorough=dict(runs=300000, workers=16, chunk=20, wall_cap=3000),
    run_timeout=90,
    exec_timeout=90,
    shrink_keys=['ops', 'faults'],
    expected_probes=['parse_after_failed_parse', 'parse_ok', 'parse_error', 'trunc', 'byte', 'nul', 'dup', 'del',
                     'splice', 'paren', 'opbyte', 'swap', 'tail', 'head', 'same_input_again', 'alloc_policy_lifo', 'free_function_with_constants_variant_2'],
    rule=('one run = one long-lived Parser (1 in 3 runs with local constants) and one long-lived SbmlParser fed a '
          'seeded history of 10-120 inputs: grammar-generated valid strings (numbers incl. leading zeros, exponents, '
          'long integers; identifiers incl. bytes >= 0x80; all operators, relationals, boolean operators and '
          'functions; Piecewise; implicit multiplication; random whitespace; nesting up to 300 parentheses) each with '
          '0-2 attached input faults (truncate / overwrite byte / NUL / duplicate span / delete span / splice / stray '
          'parenthesis / operator byte / swap / unknown byte as the last or first thing in the input), convert_xor toggled per call, free parse() interleaved; one input in six is an earlier input given again to the same object; identifiers, SBML constants and SBML function names (plus, times, minus, power, root, and, or, not, eq ... piecewise) come in several letter cases. Outcome (result string or exception class and message) of '
          'the reused object is compared with a fresh parser on the same bytes. Non-trivial = at least one parse '
          'issued right after a failed parse on the same object; distinct = distinct event-log hash.'),
    state_measure='not tracked (distinct event logs are the measure)',
    components=dict(real=REAL_COMMON + ['Parser, SbmlParser, tokenizers, bison parsers, all constructors reached from grammar actions'],
                    stub=['sequence of inputs and input faults (seeded plan)']),
    assumptions=['inputs that could legitimately take very long or exhaust memory (towers of powers; special functions of literals with more than 4 digits or with exponents; two or more special functions in one input, e.g. gamma(gamma(18)); zeta/dirichlet_eta/polygamma of literals above 99, which compute Bernoulli numbers quadratically) are filtered out by a conservative syntactic predicate and not run (probe skipped_potentially_expensive)',
                 'inputs of the listed known finding (lowergamma/uppergamma with a literal of 4 or more digits inside the argument list) are left out of random exploration and replayed from known/C18/*.json instead (probe skipped_known_finding_family)',
                 'hang = the run, alone in a fresh process, is still in the same step after 4 watchdog periods (6 minutes); a watchdog kill inside the loaded batch that completes when run alone is recorded as a slow run, not as a violation',
                 'safety clause: only mutations of grammar-generated strings are explored (coverage-guided fuzzing of arbitrary byte strings is a different technique and is not claimed)',
                 'inputs <= 2500 bytes; ASan/UBSan report every memory error / UB executed', 'sampling, not proof'],
)

CHECKS['C19'] = dict(
    variants=['asan'],
    targets=['build/bin/c19'],
    binaries=['build/bin/c19'],
    quick=dict(runs=16000, workers=16, chunk=20, wall_cap=600),
    thorough=dict(runs=400000, workers=16, chunk=20, wall_cap=3000),
    run_timeout=60,
    shrink_keys=['ops', 'pool', 'elems'],
    expected_probes=['address_reused_while_output_archive_alive', 'roundtrip_string_api', 'roundtrip_archive_api',
                     'matrix_roundtrip', 'doubles_compared_bitwise', 'alloc_policy_lifo', 'alloc_policy_fifo',
                     'alloc_policy_random', 'alloc_policy_system', 'dumps_failed_half_way', 'matrix_entries_with_colliding_hashes', 'load_of_torn_dump_failed'],
    rule=('one run = an expression pool of 3-16 DAG nodes over every serialisable class (numbers of every kind incl. '
          'exact double bit patterns, symbols, dummies, constants, sums, products, powers, all function classes, '
          'relationals, booleans, Piecewise, Contains, sets, Derivative, Subs) with deliberate sharing, then 2-15 '
          'steps: round trip through Basic::dumps/loads or through the archive templates (recording output '
          'streambuf, short-read input streambuf), DenseMatrix round trips, and allocation of unrelated live '
          'objects in between, and dumps that fail half way (an unserialisable node after serialisable ones) followed by ordinary round trips on the same thread; the allocator seam runs one reuse policy per run (LIFO immediate reuse, FIFO delayed, '
          'seeded random, system). Oracle: eq both ways, same str, same hash, double leaves bit-identical, dump of '
          'the copy not longer than the dump of the original (sharing restored). Non-trivial = at least one round '
          'trip during whose dumps() an address was reused (or system policy); distinct = distinct event-log hash.'),
    state_measure='not tracked (distinct event logs are the measure)',
    components=dict(real=REAL_COMMON + ['serialize-cereal.h archives (header code compiled into the harness)', 'Basic::dumps/loads, DenseMatrix::dumps/loads'],
                    stub=['global operator new/delete (allocator seam: reuse policy, budget, ledger)', 'std::streambuf under the archives (recording / short reads)']),
    assumptions=['no byte is corrupted in this check (C20 does that)',
                 'field-completeness of every save/load pair is sampled by the generator, not enumerated',
                 'RealDouble NaN payloads are not generated (NaN != NaN makes eq undefined for them)',
                 'sampling, not proof'],
)

CHECKS['C20'] = dict(
    level='fault_enumeration',
    variants=['asan'],
    targets=['build/bin/c20'],
    binaries=['build/bin/c20'],
    quick=dict(runs=8000, workers=16, chunk=20, wall_cap=600),
    thorough=dict(runs=300000, workers=16, chunk=20, wall_cap=3000),
    run_timeout=60,
    stop_after_violations=60,
    max_reported=40,
    shrink_keys=['ops', 'faults', 'pool'],
    expected_probes=['bitflip', 'byte', 'trunc', 'zero_sector', 'dup_sector', 'splice', 'field', 'numeral', 'backref', 'retype', 'soup',
                     'damaged_dump_loaded', 'damaged_dump_rejected', 'allocation_over_budget_refused'],
    rule=('one run = an expression pool of 2-12 DAG nodes over every serialisable class, dumped through the archive '
          'templates with the write (= field) boundaries recorded and address keys normalised, then 3-33 loads of a '
          'dump that crossed the storage fault layer with 1-3 faults: bit flip, byte overwrite, truncation (torn '
          'write), zero-filled sector of 8/64/512 bytes (lost write), sector copied over another offset '
          '(misdirected write), splice of two dumps (misdirected read), and field-targeted damage (count/length '
          '+-1, 0, huge, max; type code; first-seen flag; sharing key swapped with another field; an integer string replaced by an adversarial numeral such as "-", "", "0", "+1", "0x10", 2^63, 2^64, or one digit changed), through '
          'Basic::loads or the input archive with short reads, under a memory budget of 64 MB per request / 512 MB '
          'live. Non-trivial = at least one load of bytes that really differ from the valid dump; distinct = '
          'distinct event-log hash.'),
    state_measure='other_counters lists (field kind, damage kind) pairs hit',
    components=dict(real=REAL_COMMON + ['serialize-cereal.h input/output archives', 'Basic::loads', 'str / hash / eq / __cmp__ / eval_double on returned expressions'],
                    stub=['storage between dumps and loads (fault layer)', 'global operator new/delete (memory budget)', 'std::streambuf under the archives']),
    assumptions=['only mutations of valid dumps are explored (the property\'s stated quantifier), not arbitrary byte strings',
                 'memory budget: a request over 64 MB or total over 512 MB raises std::bad_alloc, as on a finite machine',
                 'address keys are normalised to small numbers so that a run does not depend on the heap layout',
                 'ASan/UBSan report every memory error / UB executed', 'sampling, not proof'],
)

CHECKS['C23'] = dict(
    variants=['asan'],
    targets=['build/bin/c23'],
    binaries=['build/bin/c23'],
    quick=dict(runs=640, workers=16, chunk=5, wall_cap=600),
    thorough=dict(runs=24000, workers=16, chunk=5, wall_cap=3000),
    run_timeout=300,
    exec_timeout=300,
    shrink_keys=['ops', 'seeds', 'steps', 'force'],
    expected_probes=['random_splitting_used', 'seed_list_replayed', 'characteristic_2_branch',
                     'equal_degree_factors_present', 'seed_list_exhausted_continued', 'gmp_draw_forced',
                     'several_fields_in_one_run', 'arith_history_of_in_place_updates', 'arith_aliased_operands',
                     'arith_division_by_zero', 'arith_ddf_checked', 'arith_non_sqf_input'],
    rule=('one run = 1-4 operations, each over its own prime field GF(p), p in [2,199] (half of the runs use several '
          'fields). "factor": a polynomial of degree <= 12 (product of known irreducibles with multiplicities up to '
          'p^2+2, equal-degree blocks, or random) factored again and again under 9-65 rand() seed lists and forced '
          'outcomes of individual GMP draws (a prefix of 1-120 draws, or up to 4 chosen draw indices, forced to '
          '0 / 1 / 2 / n/2 / n-1) through gf_factor and - for monic square-free inputs - gf_zassenhaus and gf_shoup; '
          'oracle in independent mod-p arithmetic: factors monic, irreducible (Rabin), distinct, multiply back; '
          'identical factor set under every seed list and entry point; each call ends within 20000 rand() draws. '
          '"arith": a history of 4-44 steps on a pool of 1-4 mutable GaloisFieldDict objects (zero, constant, random, '
          'repeated-factor polynomials): in-place += -= *= /= %= with polynomial and integer operands (aliased '
          'operands, zero divisors), negate, + - *, gf_div / operator/ / operator%, shifts, sqr, pow, monic, gcd, lcm, '
          'diff, eval / multi_eval, is_sqf / sqf_list / sqf_part, compose_mod, pow_mod, Frobenius monomial base and '
          'map, ddf_zassenhaus / ddf_shoup; after every step every pool member must be canonical (coefficients in '
          '[0,p), no leading zero) and equal to the harness model. Non-trivial = (>= 4 judged factorisations and '
          'random splitting used) or an arithmetic history with >= 3 in-place updates; distinct = distinct '
          'event-log hash.'),
    state_measure='not tracked',
    components=dict(real=REAL_COMMON + ['GaloisFieldDict (fields.h / fields.cpp): operators, gf_* algorithms, gf_factor, gf_zassenhaus, gf_shoup, ddf/edf, gf_random', 'GMP random state (gmp_randseed_ui, mpz_urandomm: real generator always advanced)'],
                    stub=['std::rand() (link-time --wrap=rand: values come from the plan)', 'outcome of chosen mpz_urandomm draws (link-time --wrap=__gmpz_urandomm: forced boundary values)', 'independent GF(p)[x] arithmetic and Rabin test in the harness']),
    assumptions=['p <= 199; degree <= 12 for factorisation (p = 2: <= 8, because gf_edf_zassenhaus loops 2^(deg-1) times there), <= 24 in arithmetic histories',
                 'forced draws are boundary values at bounded positions, after which the seeded generator continues; endless constant streams are not injected: retry loops legitimately need fresh randomness',
                 'gf_eval only at points in [0, p); a constant divisor that is a non-zero multiple of p is not used (no inverse exists)',
                 'sqf_list is judged by its defining properties (parts monic, square-free, pairwise coprime, product of powers = monic input), not by a particular grouping',
                 'sampling, not proof'],
)

CHECKS['C32'] = dict(
    variants=['asan'],
    targets=['build/bin/c32'],
    binaries=['build/bin/c32'],
    quick=dict(runs=800, workers=16, chunk=10, wall_cap=600),
    thorough=dict(runs=24000, workers=16, chunk=10, wall_cap=3000),
    run_timeout=300,
    exec_timeout=300,
    shrink_keys=['ops', 'seeds', 'force'],
    shrink_ints=['n', 'm', 'a'],
    expected_probes=['random_numbers_drawn', 'seed_list_replayed', 'same_call_under_other_sieve_state',
                     'sieve_clear', 'sieve_set_size', 'sieve_set_clear', 'sieve_iterator_stepped',
                     'sieve_generate_primes', 'pollard_gave_up', 'gmp_draw_forced', 'multi_limb_base', 'alloc_policy_lifo'],
    rule=('one run = a seeded interleaving (8-58 steps) of calls of the number-theory functions with perturbations of '
          'the process-global sieve (clear, set_clear, set_sieve_size in {1,2,3,4,8,32}, a held iterator stepped, '
          'generate_primes); earlier calls are repeated under the new sieve state, and every call is replayed under '
          '2-6 rand() seed lists and forced outcomes of GMP draws (prefix of 1-40 draws or up to 3 chosen draws forced '
          'to 0 / 1 / 2 / n/2 / n-1). Functions: the randomised / sieve-dependent ones (factor, factor_trial_division, '
          'factor_lehman_method, factor_pollard_pm1/rho, prime_factors, prime_factor_multiplicities, primepi, '
          'primorial, totient, carmichael, multiplicative_order, primitive_root(_list), mobius, mertens, '
          'is_quad_residue, is_nth_residue, nthroot_mod(_list), powermod(_list)) on n <= 1e6, 40-bit semiprimes, '
          'moduli <= 4000 (primes, prime powers, 2p^k, composites) and primes = 1 mod 8 above 10000 (Tonelli-Shanks); '
          'the pure ones (gcd, lcm, gcd_ext, mod/quotient families, mod_inverse, crt, fibonacci(2), lucas(2), '
          'binomial, factorial, divides, bernoulli, harmonic, legendre, jacobi, kronecker, quadratic_residues, '
          'polygonal number / root, perfect-power decomposition, nextprime, probab_prime_p) on arguments up to 2e12; '
          'factoring methods on n = q*r >= 2^64; nthroot_mod(_list) / is_nth_residue modulo prime powers up to 2^40 '
          '(incl. 40487^2) against the group-structure root count. Oracle: brute force from the definitions in raw '
          'GMP / __int128 arithmetic (roots compared as residues), "may fail, never lie" for the Pollard methods, '
          'identical results across seed lists and sieve states. Non-trivial = >=4 judged calls and >=1 sieve '
          'perturbation; distinct = distinct event-log hash.'),
    state_measure='not tracked',
    components=dict(real=REAL_COMMON + ['ntheory.cpp, ntheory_funcs.cpp, prime_sieve.cpp', 'GMP random state (real generator always advanced)'],
                    stub=['std::rand() (link-time --wrap=rand)', 'outcome of chosen mpz_urandomm draws (link-time --wrap=__gmpz_urandomm)', 'order of sieve perturbations and calls (seeded plan)', 'brute-force oracles in the harness (raw GMP, __int128)']),
    assumptions=['the seams (randomness, global sieve) decide the clauses that depend on them; the pure functions are checked against their definitions in the same workload, which is input sampling',
                 'which non-trivial divisor a factoring method returns, which root nthroot_mod/powermod return, and which primitive root of a composite modulus is returned are unspecified: only validity is required',
                 'factor_lehman_method finding nothing for a composite is counted (probe) but not judged',
                 'bernoulli(1) = +1/2 (the library\'s sign convention); legendre only for odd primes, jacobi for odd positive n',
                 'sampling, not proof'],
)

CHECKS['C41'] = dict(
    variants=['tsan_ts', 'asan_ts'],
    targets=['build/bin/c41_tsan', 'build/bin/c41_asan'],
    binaries=['build/bin/c41_tsan', 'build/bin/c41_asan'],
    quick=dict(runs=2400, runs_per_binary=[2400, 1600], workers=16, chunk=10, wall_cap=900),
    thorough=dict(runs=60000, runs_per_binary=[60000, 30000], workers=16, chunk=10, wall_cap=3300),
    run_timeout=120,
    recycle_runs=4,      # fresh process every 4 runs: cold function-local statics keep being explored
    shrink_keys=['threads', 'ops', 'switches', 'shared'],
    expected_probes=['context_switch_injected', 'sched_random', 'sched_pct', 'static_initialiser_contended',
                     'dummies_created_concurrently', 'handoff_objects_released_by_workers', 'lock_held_by_parked_thread'],
    rule=('one run = 3-8 shared expressions (sums, products, powers, elementary functions, special angles that hit '
          'the lazily built tables) built by the main thread and left untouched (hash_ == 0), then 2-4 real threads '
          'each running 3-13 operations from the property\'s list (hash, eq, __cmp__, str, diff, subs, xreplace, '
          'expand, add/mul/pow/sub/div with shared and thread-local operands, function constructors, get_args, '
          'has_symbol, free_symbols, eval_double, copying/dropping RCPs in containers, dummy()), half of the runs with sibling expressions (same tree, one leaf changed) compared by several threads and with 1-3 hand-off objects owned by the worker threads alone and released through reset / assignment / destruction, under the seeded '
          'scheduler: random switching with per-kind probabilities, PCT-style priorities with 1-4 change points, or '
          'switch-at-every-yield. Non-trivial = >=2 context switches and >=4 compared results; distinct = distinct '
          'hash of the context-switch sequence (yield index, thread) - see distinct_abstract_states.'),
    state_measure='distinct context-switch sequences: hash of the list of (yield index, thread switched to)',
    simulated_time='none: SymEngine has no clock; progress is counted in scheduler yield points (operations_or_scheduler_steps)',
    components=dict(real=REAL_COMMON + ['libsymengine.a built with WITH_SYMENGINE_THREAD_SAFE=ON and -fsanitize=thread', 'real std::thread workers', 'ThreadSanitizer runtime (happens-before detector)'],
                    stub=['who runs next: uninstrumented futex scheduler (sim/sched.cpp) deciding at every __tsan_atomic* call and __cxa_guard_* (link-time --wrap); in the second binary (thread-safe build under ASan/UBSan) at the add-only source hooks SYMENGINE_VERIF_SIM_POINT instead']),
    assumptions=['sequentially consistent interleavings at atomic-access granularity; hardware weak-memory reorderings are not modelled (the library uses seq_cst atomics except the relaxed Dummy counter RMW)',
                 'ThreadSanitizer keeps a bounded access history per location; mitigated by many short runs',
                 'WITH_SYMENGINE_RCP=yes only (Teuchos RCP not covered); no OpenMP',
                 'operations outside the property\'s list (prime sieve, Series::step_list) are not exercised concurrently',
                 'sampling, not proof'],
)


# additions of the third session (DESIGN.md section 9), appended to the rules above
CHECKS['C13']['rule_more'] = ('Also: the allocator seam picks an address-reuse policy per run; one call in four repeats the '
    'evaluator\'s previous input vector (also across a re-initialisation, sometimes with the sign of zeros flipped); some '
    'inits have 3-6 outputs that are overlapping sums/products of a few symbols, or several Piecewise outputs guarded by '
    'the same condition with floor/ceiling of a shared subexpression; Constant leaves may be objects of their own '
    '(constant("pi")) instead of the library singletons; no value is judged where a subexpression lies on a branch cut.')
CHECKS['C18']['rule_more'] = ('Also: the allocator seam picks an address-reuse policy per run; the free functions parse() and '
    'parse_sbml() get a constant map per call (none / map A / map B with the same names and other values); one input in '
    'twelve is a soup of tokens and bytes not derived from the grammar; literals include 1e999, 1e-999, 2^63, 2^64, 10^19; '
    'boolean operators get operands that are not booleans (numbers, negative 20-digit integers, Piecewise). The cost '
    'filter looks at the value of each literal (finite and above 9999 next to a special function = not run).')
CHECKS['C19']['rule_more'] = ('Also: bursts of loads of torn copies of a valid dump (all fail) between round trips; DenseMatrix '
    'entries k and 2^64+k (equal in everything Integer::__hash__ reads), the same twins inside FiniteSet / Mul / And / Or / '
    'function arguments; symbol names with blanks, tabs, quotes, parentheses or nothing at all; -0.0 built directly '
    '(RealDouble and both parts of ComplexDouble); URatPoly, PrimePi, Primorial; the small integers where value caches end.')
CHECKS['C20']['rule_more'] = ('Also: a node header turned into a back reference to an earlier node (sharing key := earlier key, '
    'first-seen flag := 0); an Integer node rewritten as a RealDouble node with chosen bits (0.0, -0.0, +-1, +-inf, NaN, 2); '
    'one load in ten is of bytes that never were a dump (nothing, random bytes, a valid header followed by random bytes).')
CHECKS['C25']['rule_more'] = ('Also: the output argument of binop / elementwise product may be an object that already holds an '
    'earlier result of the same shape; one coordinate list in three is row- or column-major with one or two entries moved; '
    'entry values include 0**x and 0**(x+y), which stay unevaluated and are not zero.')
CHECKS['C32']['rule_more'] = ('Also: the allocator seam picks an address-reuse policy per run; one modulus in four is related to '
    'that of the previous call (2m, m/2, m*p, m/p); the base of the modular functions is sometimes the multi-limb number '
    'a + m*(2^(64j)+c); polygonal_number / principal_polygonal_root of the symbolic layer with arguments up to 2^31.')
CHECKS['C33']['rule_more'] = ('Also: in half of the runs an allocation is made to fail inside generate_primes / next_prime / clear / '
    'an iterator destructor (the k-th allocation of that call; std::bad_alloc is an accepted outcome, later results of every '
    'client are judged; the event log records only that the fault was armed, because whether a k-th allocation exists '
    'depends on the capacity the cache vector kept from earlier runs of the process); iterators are copy-assigned from '
    'other slots and from temporaries; one run in about forty walks one iterator past 2^20 primes.')
CHECKS['C41']['rule_more'] = ('Also: expand((x + y + ...)^n) for 2-5 terms and n <= 6; bursts of up to 69000 Dummy symbols per thread; '
    'a correctly locked section of the harness (std::mutex with reference-count traffic inside) entered by several threads: '
    'blocking locks are taken through non-blocking link-time wrappers and a thread spinning on one address is descheduled '
    'after 256 yields.')
