// C20: deserializing damaged bytes is memory-safe.
//
// Simulation: valid dumps (addresses normalised so that runs replay in any
// process) cross a faulty storage layer between write and read: bit flips,
// overwritten bytes, torn writes (truncation), lost sectors (zero fill),
// misdirected writes (a sector copied over another offset), misdirected reads
// (splice of two dumps), and field-targeted damage using the write boundaries
// recorded by the stream seam (counts +-1 / 0 / huge, type codes, first-seen
// flags, sharing keys swapped). loads() runs under a memory budget (allocator
// seam: a finite machine). Oracle: an expression or a SymEngineException;
// a returned expression survives str, hash, eq, compare and evaluation.
#include "../sim/harness.h"
#include "../sim/exprgen.h"
#include "../sim/alloc_seam.h"
#include "../sim/stream_seam.h"
#include <symengine/serialize-cereal.h>
#include <symengine/eval_double.h>
#include <symengine/visitor.h>
#include <algorithm>

using namespace sim;
using namespace SymEngine;

SIM_SANITIZER_DEFAULTS()

namespace
{

Json gen_fault(Rng &g)
{
    Json f = Json::object();
    static const char *kinds[] = {"bitflip", "byte",   "trunc", "zero_sector",
                                  "dup_sector", "splice", "field", "field",
                                  "field", "field", "numeral", "numeral", "backref", "retype"};
    std::string k = kinds[g.below(14)];
    f["kind"] = k;
    f["at"] = (long long)g.below(100000);
    if (k == "bitflip")
        f["bit"] = (long long)g.below(8);
    if (k == "byte")
        f["v"] = (long long)g.below(256);
    if (k == "zero_sector" || k == "dup_sector") {
        static const int sz[] = {8, 8, 64, 512};
        f["size"] = sz[g.below(4)];
        f["to"] = (long long)g.below(100000);
    }
    if (k == "splice")
        f["other"] = (long long)g.below(64);
    if (k == "retype")
        f["v"] = (long long)g.below(256);
    if (k == "backref") {
        f["with"] = (long long)g.below(100000);
        f["v"] = (long long)g.below(256);
    }
    if (k == "numeral") { // an integer string replaced by an adversarial numeral
        f["how"] = g.chance(1, 4) ? "digit" : "replace";
        f["v"] = (long long)g.below(256);
        f["with"] = (long long)g.below(100000);
    }
    if (k == "field") {
        static const char *how[] = {"inc", "dec", "zero", "huge", "max", "flip",
                                    "swap", "rand", "inc", "dec"};
        f["how"] = how[g.below(10)];
        f["with"] = (long long)g.below(100000);
        f["v"] = (long long)g.below(256);
    }
    return f;
}

Json gen(uint64_t seed, const std::string &tier)
{
    Rng g(seed);
    bool thorough = tier == "thorough";
    Json plan = Json::object();
    Json cfg = Json::object();
    // swarm: which fault kinds dominate this run
    cfg["maxchunk"] = (unsigned)(1 + g.below(64));
    plan["config"] = cfg;
    Json pool = Json::array();
    unsigned npool = 2 + (unsigned)g.below(thorough ? 10 : 6);
    int depth = 1 + (int)g.below(3);
    for (unsigned i = 0; i < npool; i++) {
        switch (g.below(8)) {
            case 0:
                pool.push(simx::rallbool(g, depth, i));
                break;
            case 1:
                pool.push(simx::rallset(g, depth, i));
                break;
            default:
                pool.push(simx::rall(g, depth, i));
        }
    }
    plan["pool"] = pool;
    Json ops = Json::array();
    unsigned nops = 3 + (unsigned)g.below(thorough ? 30 : 16);
    for (unsigned k = 0; k < nops; k++) {
        Json o = Json::object();
        if (g.chance(1, 10)) {
            // bytes that never were a dump: nothing, a few random bytes, or a
            // valid header followed by random bytes
            o["op"] = "soup";
            o["e"] = (long long)g.below(npool);
            o["keep"] = (long long)(g.chance(1, 2) ? 0 : g.below(24));
            Json bytes = Json::array();
            unsigned nb = (unsigned)g.below(g.chance(1, 3) ? 200 : 24);
            for (unsigned i = 0; i < nb; i++)
                bytes.push((long long)(g.chance(1, 3) ? g.below(8) : g.below(256)));
            o["bytes"] = bytes;
            o["api"] = g.chance(2, 3) ? "string" : "archive";
            o["read_seed"] = (long long)(g.next() >> 2);
            o["faults"] = Json::array();
            ops.push(o);
            continue;
        }
        o["op"] = "load";
        o["e"] = (long long)g.below(npool);
        o["api"] = g.chance(2, 3) ? "string" : "archive";
        o["read_seed"] = (long long)(g.next() >> 2);
        Json fs = Json::array();
        unsigned nf = 1 + (unsigned)g.below(3);
        for (unsigned i = 0; i < nf; i++)
            fs.push(gen_fault(g));
        o["faults"] = fs;
        ops.push(o);
    }
    plan["ops"] = ops;
    return plan;
}

// ---------------------------------------------------------------------------
struct Dump {
    std::string bytes;
    std::vector<std::pair<size_t, size_t>> fields;
    bool ok = false;
};

uint64_t rd64(const std::string &b, size_t off)
{
    uint64_t v = 0;
    memcpy(&v, b.data() + off, 8); // portable binary = little endian here
    return v;
}
void wr64(std::string &b, size_t off, uint64_t v)
{
    memcpy(&b[off], &v, 8);
}

// dump through the archive templates, recording field boundaries, then
// replace every address key by a small canonical number (first appearance
// order) so that the bytes do not depend on the heap layout of this process
Dump make_dump(const RCP<const Basic> &e)
{
    Dump d;
    simio::RecordingBuf ob;
    {
        std::ostream os(&ob);
        unsigned short major = SYMENGINE_MAJOR_VERSION,
                       minor = SYMENGINE_MINOR_VERSION;
        RCPBasicAwareOutputArchive<cereal::PortableBinaryOutputArchive> oar(os);
        oar(major, minor, e);
    }
    d.bytes = ob.data;
    d.fields = ob.fields;
    std::map<uint64_t, uint64_t> canon;
    for (size_t i = 0; i + 1 < d.fields.size(); i++) {
        if (d.fields[i].second == 8 && d.fields[i + 1].second == 1) {
            uint64_t v = rd64(d.bytes, d.fields[i].first);
            unsigned char flag = (unsigned char)d.bytes[d.fields[i + 1].first];
            if (v >= (1ULL << 32) && v < (1ULL << 48) && flag <= 1) {
                auto it = canon.find(v);
                if (it == canon.end())
                    it = canon.emplace(v, 0x1000 + 16 * canon.size()).first;
                wr64(d.bytes, d.fields[i].first, it->second);
            }
        }
    }
    d.ok = true;
    return d;
}

RCP<const Basic> load_bytes(const std::string &bytes, bool archive, uint64_t seed,
                            unsigned maxchunk)
{
    if (!archive)
        return Basic::loads(bytes);
    simio::ShortReadBuf ib(bytes, seed, maxchunk);
    std::istream is(&ib);
    unsigned short major, minor;
    RCP<const Basic> obj;
    // Constructing the archive and reading the version header are THIS
    // caller's cereal calls (as in Basic::loads): a cereal::Exception from
    // them is cereal's documented behaviour, translated here the way
    // Basic::loads does. Everything under iar(obj) is SymEngine's loader.
    std::unique_ptr<RCPBasicAwareInputArchive<cereal::PortableBinaryInputArchive>> iar;
    try {
        iar.reset(new RCPBasicAwareInputArchive<cereal::PortableBinaryInputArchive>(is));
        (*iar)(major, minor);
    } catch (const cereal::Exception &e) {
        throw SerializationError(e.what());
    }
    (*iar)(obj);
    return obj;
}

std::string classify_field(const Dump &d, size_t k)
{
    size_t len = d.fields[k].second;
    if (len == 2)
        return "version";
    if (len == 1) {
        if (k > 0 && d.fields[k - 1].second == 8) {
            uint64_t v = rd64(d.bytes, d.fields[k - 1].first);
            if (v >= 0x1000 && v < 0x1000 + 16 * 100000 && v % 16 == 0)
                return "first_seen";
        }
        if (k > 1 && d.fields[k - 1].second == 1 && d.fields[k - 2].second == 8)
            return "type_code";
        return "byte";
    }
    if (len == 8) {
        uint64_t v = rd64(d.bytes, d.fields[k].first);
        if (v >= 0x1000 && v % 16 == 0 && v < 0x1000 + 16 * 100000
            && k + 1 < d.fields.size() && d.fields[k + 1].second == 1)
            return "sharing_key";
        if (v < 4096)
            return "count";
        return "word";
    }
    return "payload";
}

void apply_fault(std::string &b, Dump &d, const Json &f,
                 const std::vector<Dump> &others, Run &run)
{
    if (b.empty())
        return;
    std::string k = f.gets("kind");
    size_t at = (size_t)(f.geti("at") % (int64_t)b.size());
    if (k == "bitflip") {
        b[at] ^= (char)(1 << (f.geti("bit") & 7));
    } else if (k == "byte") {
        b[at] = (char)f.geti("v");
    } else if (k == "trunc") {
        b.resize(at);
    } else if (k == "zero_sector") {
        size_t n = (size_t)f.geti("size", 8);
        for (size_t i = at; i < b.size() && i < at + n; i++)
            b[i] = 0;
    } else if (k == "dup_sector") {
        size_t n = (size_t)f.geti("size", 8);
        size_t to = (size_t)(f.geti("to") % (int64_t)b.size());
        std::string sec = b.substr(at, n);
        for (size_t i = 0; i < sec.size() && to + i < b.size(); i++)
            b[to + i] = sec[i];
    } else if (k == "splice") {
        if (others.empty())
            return;
        const Dump &o = others[(size_t)f.geti("other") % others.size()];
        if (o.bytes.size() > 4)
            b = b.substr(0, at) + o.bytes.substr(std::min(o.bytes.size() - 1, at));
    } else if (k == "retype") {
        // type confusion between number kinds: an Integer node (type code,
        // length, digits) rewritten as a RealDouble node with chosen bits
        std::vector<size_t> cand;
        for (size_t i = 2; i + 2 < d.fields.size(); i++) {
            if (d.fields[i].second != 1 || d.fields[i - 1].second != 1 || d.fields[i - 2].second != 8
                || d.fields[i + 1].second != 8 || d.fields[i + 2].first + d.fields[i + 2].second > b.size()
                || d.fields[i].first >= b.size())
                continue;
            if ((unsigned char)b[d.fields[i].first] != (unsigned char)SYMENGINE_INTEGER)
                continue;
            if (rd64(b, d.fields[i + 1].first) != d.fields[i + 2].second)
                continue;
            cand.push_back(i);
        }
        if (cand.empty())
            return;
        size_t fi = cand[(size_t)f.geti("at") % cand.size()];
        static const uint64_t bits[] = {0x0000000000000000ULL, 0x8000000000000000ULL, 0x3ff0000000000000ULL,
                                        0xbff0000000000000ULL, 0x7ff0000000000000ULL, 0xfff0000000000000ULL,
                                        0x7ff8000000000000ULL, 0x4000000000000000ULL};
        uint64_t v = bits[(size_t)f.geti("v") % 8];
        b[d.fields[fi].first] = (char)(unsigned char)SYMENGINE_REAL_DOUBLE;
        size_t off = d.fields[fi + 1].first;
        size_t oldlen = 8 + d.fields[fi + 2].second;
        std::string body(8, '\0');
        memcpy(&body[0], &v, 8);
        b.replace(off, oldlen, body);
        long delta = 8 - (long)oldlen;
        // the two fields (length, digits) become one 8-byte field
        d.fields[fi + 1].second = 8;
        d.fields.erase(d.fields.begin() + (long)fi + 2);
        for (size_t i = fi + 2; i < d.fields.size(); i++)
            d.fields[i].first = (size_t)((long)d.fields[i].first + delta);
        d.bytes = b;
    } else if (k == "backref") {
        // a node header (sharing key, first-seen flag = 1) turned into a
        // reference to a node written earlier: key := an earlier key, flag := 0
        std::vector<size_t> keys;
        for (size_t i = 0; i + 1 < d.fields.size(); i++)
            if (d.fields[i].second == 8 && d.fields[i + 1].second == 1
                && d.fields[i + 1].first + 1 <= b.size() && d.fields[i].first + 8 <= d.bytes.size()
                && classify_field(d, i) == "sharing_key")
                keys.push_back(i);
        if (keys.size() < 2)
            return;
        size_t which = 1 + (size_t)f.geti("at") % (keys.size() - 1);
        size_t from = (size_t)f.geti("with") % which; // an earlier node
        uint64_t v = rd64(b, d.fields[keys[from]].first);
        wr64(b, d.fields[keys[which]].first, v);
        if (f.geti("v") % 4 != 0) // mostly: "already seen"; sometimes the flag stays 1
            b[d.fields[keys[which] + 1].first] = 0;
    } else if (k == "numeral") {
        // integer strings: an 8-byte length followed by that many digits
        std::vector<size_t> cand;
        for (size_t i = 1; i < d.fields.size(); i++) {
            size_t off = d.fields[i].first, len = d.fields[i].second;
            if (d.fields[i - 1].second != 8 || len == 0 || len > 64 || off + len > b.size()
                || d.fields[i - 1].first + 8 > b.size() || rd64(b, d.fields[i - 1].first) != len)
                continue;
            bool num = true;
            for (size_t j = 0; j < len && num; j++)
                num = isdigit((unsigned char)b[off + j]) || (j == 0 && len > 1 && b[off] == '-');
            if (num)
                cand.push_back(i);
        }
        if (cand.empty())
            return;
        size_t fi = cand[(size_t)f.geti("at") % cand.size()];
        size_t off = d.fields[fi].first, len = d.fields[fi].second;
        std::string rep = b.substr(off, len);
        if (f.gets("how") == "digit") {
            rep[(size_t)f.geti("with") % rep.size()] = "0-9+ "[(size_t)f.geti("v") % 5];
        } else {
            static const char *bad[] = {"-", "", "0", "-0", "00", "+1", " 1", "1 ", "0x10", "1e5", "--1",
                                        "1-", "99999999999999999999999", "-99999999999999999999",
                                        "9223372036854775807", "9223372036854775808",
                                        "-9223372036854775808", "-9223372036854775809",
                                        "18446744073709551616", "1/2", "1.5", "-", "0"};
            rep = bad[(size_t)f.geti("v") % (sizeof bad / sizeof bad[0])];
        }
        run.count("numeral_fault." + std::string(rep.size() <= 4 ? rep : rep.substr(0, 4) + "~"));
        b.replace(off, len, rep);
        wr64(b, d.fields[fi - 1].first, rep.size());
        long delta = (long)rep.size() - (long)len;
        d.fields[fi].second = rep.size();
        for (size_t i = fi + 1; i < d.fields.size(); i++)
            d.fields[i].first = (size_t)((long)d.fields[i].first + delta);
        d.bytes = b; // keep the field map and the bytes it describes in step
    } else if (k == "field") {
        if (d.fields.empty())
            return;
        size_t fi = (size_t)(f.geti("at") % (int64_t)d.fields.size());
        size_t off = d.fields[fi].first, len = d.fields[fi].second;
        if (off + len > b.size() || off + len > d.bytes.size() || len == 0)
            return;
        std::string how = f.gets("how");
        std::string fk = classify_field(d, fi);
        run.count("field_fault." + fk + "." + how);
        if (len == 8) {
            uint64_t v = rd64(b, off);
            if (how == "inc")
                v++;
            else if (how == "dec")
                v--;
            else if (how == "zero")
                v = 0;
            else if (how == "huge")
                v = (1ULL << 40) + (uint64_t)f.geti("v");
            else if (how == "max")
                v = ~0ULL;
            else if (how == "flip")
                v ^= 1ULL << (f.geti("v") % 64);
            else if (how == "swap") { // another 8-byte field's value
                for (size_t t = 0; t < d.fields.size(); t++) {
                    size_t fj = (size_t)((f.geti("with") + (int64_t)t)
                                         % (int64_t)d.fields.size());
                    if (fj != fi && d.fields[fj].second == 8
                        && d.fields[fj].first + 8 <= b.size()) {
                        v = rd64(b, d.fields[fj].first);
                        break;
                    }
                }
            } else
                v = (uint64_t)f.geti("v") * 0x0101010101010101ULL;
            wr64(b, off, v);
        } else if (len == 1) {
            unsigned char v = (unsigned char)b[off];
            if (how == "inc")
                v++;
            else if (how == "dec")
                v--;
            else if (how == "zero")
                v = 0;
            else if (how == "huge" || how == "max")
                v = 255;
            else if (how == "flip")
                v ^= 1;
            else
                v = (unsigned char)f.geti("v");
            b[off] = (char)v;
        } else {
            size_t p = off + (size_t)(f.geti("with") % (int64_t)len);
            if (how == "zero")
                b[p] = 0;
            else if (how == "inc")
                b[p]++;
            else if (how == "dec")
                b[p]--;
            else
                b[p] = (char)f.geti("v");
        }
    } else
        return;
    run.fault(k);
}

struct Budget {
    Budget()
    {
        simalloc::configure(simalloc::SYSTEM, 1, (size_t)64 << 20, (size_t)512 << 20);
        simalloc::reset_counters();
    }
    ~Budget()
    {
        simalloc::deactivate();
    }
};

// use a returned expression the way the property lists: print, hash,
// compare, evaluate. Library exceptions are fine; anything else escapes.
std::string use_expression(const RCP<const Basic> &l, const RCP<const Basic> &orig)
{
    std::string what;
    auto step = [&](const char *name, const std::function<void()> &fn) {
        try {
            fn();
        } catch (const SymEngineException &e) {
            what += std::string(name) + ":threw ";
        }
    };
    std::string s;
    step("str", [&] { s = l->__str__(); });
    step("hash", [&] { (void)l->hash(); });
    step("eq", [&] { (void)eq(*l, *orig); (void)eq(*orig, *l); (void)eq(*l, *l); });
    step("cmp", [&] { (void)l->__cmp__(*orig); (void)orig->__cmp__(*l); });
    step("eval", [&] { (void)eval_double(*l); });
    return what + "str=" + std::to_string(s.size());
}

void exec(Run &run)
{
    unsigned maxchunk = (unsigned)run.plan.at("config").geti("maxchunk", 8);
    simx::Pool pool;
    const Json &pl = run.plan.at("pool");
    for (size_t i = 0; i < pl.size(); i++) {
        try {
            pool.push_back(simx::build(pl[i], pool));
        } catch (const SymEngineException &) {
            pool.push_back(simx::sym_n((int64_t)i));
        } catch (const simx::BuildError &) {
            pool.push_back(simx::sym_n((int64_t)i));
        }
    }
    if (pool.empty())
        pool.push_back(simx::sym_n(0));
    // valid dumps of every pool member (unsupported types are skipped)
    std::vector<Dump> dumps(pool.size());
    std::vector<Dump> valid;
    for (size_t i = 0; i < pool.size(); i++) {
        try {
            dumps[i] = make_dump(pool[i]);
            // the normalised dump must still load to the same expression
            RCP<const Basic> back = Basic::loads(dumps[i].bytes);
            if (!eq(*back, *pool[i])
                && back->__str__() != pool[i]->__str__()) {
                dumps[i].ok = false;
                run.probe("normalisation_rejected");
            } else
                valid.push_back(dumps[i]);
        } catch (const SymEngineException &) {
            dumps[i].ok = false;
            run.probe("dumps_unsupported");
        }
    }
    const Json &ops = run.plan.at("ops");
    unsigned damaged_loads = 0;
    for (size_t k = 0; k < ops.size() && !run.failed(); k++) {
        const Json &o = ops[k];
        run.steps++;
        size_t idx = (size_t)o.geti("e") % pool.size();
        if (!dumps[idx].ok) {
            run.ev("skip (no dump)");
            continue;
        }
        Dump d = dumps[idx];
        std::string b = d.bytes;
        const Json &fs = o.at("faults");
        for (size_t i = 0; i < fs.size(); i++)
            apply_fault(b, d, fs[i], valid, run);
        if (o.gets("op") == "soup") {
            b.resize(std::min<size_t>(b.size(), (size_t)o.geti("keep")));
            const Json &bs = o.at("bytes");
            for (size_t i = 0; i < bs.size(); i++)
                b.push_back((char)bs[i].as_int());
            run.fault("soup");
        }
        bool changed = b != dumps[idx].bytes;
        bool archive = o.gets("api") == "archive";
        std::string outcome;
        RCP<const Basic> l;
        {
            Budget budget; // a finite machine: 64 MB per request, 512 MB live
            try {
                l = load_bytes(b, archive, (uint64_t)o.geti("read_seed", 1), maxchunk);
                outcome = "returned";
            } catch (const SymEngineException &e) {
                outcome = "threw " + demangle(typeid(e).name());
            } catch (const std::exception &e) {
                simalloc::Stats st = simalloc::stats();
                std::string cls = demangle(typeid(e).name());
                run.ev("load -> escaped " + cls);
                run.fail("loads-escaped:" + cls,
                         std::string("loads let ") + cls + " (" + e.what()
                             + ") escape instead of a library exception; "
                             + (st.budget_failures
                                    ? "an allocation exceeded the memory budget"
                                    : "no allocation exceeded the budget"));
                break;
            }
            if (simalloc::stats().budget_failures)
                run.probe("allocation_over_budget_refused");
        }
        if (changed)
            damaged_loads++;
        if (outcome == "returned") {
            run.probe(changed ? "damaged_dump_loaded" : "undamaged_dump_loaded");
            std::string u;
            try {
                u = use_expression(l, pool[idx]);
            } catch (const std::exception &e) {
                std::string cls = demangle(typeid(e).name());
                run.ev("use -> escaped " + cls);
                run.fail("use-after-load-escaped:" + cls,
                         "using the expression returned by loads let " + cls
                             + " (" + e.what() + ") escape");
                break;
            }
            run.ev("load " + std::to_string(b.size()) + "B -> returned; " + u);
        } else {
            run.probe("damaged_dump_rejected");
            run.ev("load " + std::to_string(b.size()) + "B -> " + outcome);
        }
    }
    run.nontrivial = damaged_loads >= 1;
}

} // namespace

int main(int argc, char **argv)
{
    Check c = {"C20", 20, gen, exec, nullptr};
    return harness_main(argc, argv, c);
}
