// C18: parsing is safe, and a reused parser object is stateless.
//
// Simulation: one long-lived Parser (sometimes with local constants), one
// long-lived SbmlParser, fed a seeded history of inputs. Each input is a
// grammar-generated valid string with 0-2 attached faults (EOF / NUL / flipped
// byte at an arbitrary position, duplicated / deleted span, splice of two
// inputs, unbalanced parenthesis), convert_xor toggled between calls; failing
// and succeeding inputs alternate. Oracle per step: outcome of the reused
// parser == outcome of a fresh parser on the same bytes; every outcome is an
// expression or a SymEngineException; free function parse() == fresh Parser.
#include "../sim/harness.h"
#include "../sim/alloc_seam.h"
#include <cstring>
#include <cmath>
#include <symengine/parser.h>
#include <symengine/parser/parser.h>
#include <symengine/parser/sbml/sbml_parser.h>
#include <symengine/symengine_exception.h>
#include <symengine/integer.h>
#include <symengine/add.h>
#include <symengine/symbol.h>
#include <memory>

using namespace sim;
using namespace SymEngine;

SIM_SANITIZER_DEFAULTS()

namespace
{

// ---------------- valid-string generator -----------------------------------
struct G {
    Rng &g;
    bool sbml;
    int budget; // remaining nodes
    std::string ws()
    {
        switch (g.below(12)) {
            case 0:
                return " ";
            case 1:
                return "  ";
            case 2:
                return "\t";
            case 3:
                return "\n";
            default:
                return "";
        }
    }
    std::string ident()
    {
        static const char *ids[] = {"x",  "y",   "z",  "t",  "a1", "_b", "x_1",
                                    "xy", "foo", "E1", "w0", "c0", "kk", "x",
                                    // the same names in other letter cases: a
                                    // parser must not fold them together
                                    "X",  "Y",   "Xy", "XY", "Foo", "FOO", "Kk",
                                    "KK", "C0",  "T",  "fOO", "A1", "X_1"};
        if (g.chance(1, 25))
            return "\xce\xb1"; // UTF-8 alpha: bytes >= 0x80 are identifier chars
        if (g.chance(1, 40))
            return std::string("v") + "\xe2\x82\x81";
        return ids[g.below(sizeof ids / sizeof ids[0])];
    }
    std::string number()
    {
        switch (g.below(12)) {
            case 0:
                return "0";
            case 1:
                return "00" + std::to_string(g.below(100));
            case 2:
                return std::to_string(g.below(10)) + "."
                       + std::to_string(g.below(1000));
            case 3:
                return "." + std::to_string(1 + g.below(99));
            case 4:
                return std::to_string(g.below(50)) + ".";
            case 5:
                return std::to_string(1 + g.below(9)) + "e"
                       + std::to_string(g.below(12));
            case 6:
                return std::to_string(g.below(10)) + "." + std::to_string(g.below(100))
                       + (g.chance(1, 2) ? "E-" : "e+") + std::to_string(g.below(9));
            case 7:
                return std::to_string(10000 + g.below(89999));
            case 8: // long integer: exceeds long, goes through integer_class
                if (g.chance(1, 2)) { // the word-size boundaries
                    static const char *edge[] = {"18446744073709551615", "18446744073709551616",
                                                 "9223372036854775807", "9223372036854775808",
                                                 "10000000000000000000", "4294967296", "2147483648",
                                                 "99999999999999999999", "1e999", "1e-999"};
                    return edge[g.below(10)];
                }
                return "123456789012345678901234567890" + std::to_string(g.below(10));
            default:
                return std::to_string(g.below(13));
        }
    }
    std::string constant()
    {
        static const char *cs[] = {"e",   "E",   "pi",   "I",    "oo", "inf",
                                   "zoo", "nan", "True", "False", "EulerGamma",
                                   "Catalan", "GoldenRatio"};
        if (sbml) {
            static const char *sc[] = {"pi", "PI", "Pi", "exponentiale", "ExponentialE", "avogadro",
                                       "time", "Time", "inf", "INF", "infinity", "nan", "NaN",
                                       "notanumber", "true", "True", "false", "FALSE", "e", "E"};
            return sc[g.below(sizeof sc / sizeof sc[0])];
        }
        return cs[g.below(13)];
    }
    std::string atom()
    {
        budget--;
        switch (g.below(10)) {
            case 0:
            case 1:
            case 2:
                return number();
            case 3:
                return constant();
            case 4:
                if (!sbml) // implicit multiplication
                    return std::to_string(1 + g.below(20))
                           + (g.chance(1, 4) ? ".5" : "") + ident();
                return ident();
            default:
                return ident();
        }
    }
    std::string func()
    {
        static const char *f1[]
            = {"sin",  "cos",  "tan",   "cot",  "csc",  "sec",  "asin", "arcsin",
               "acos", "atan", "arctan", "asec", "acsc", "acot", "sinh", "cosh",
               "tanh", "coth", "sech",  "csch", "asinh", "acosh", "atanh",
               "asech", "acoth", "acsch", "sqrt", "abs", "exp",  "floor", "ln",
               "log"};
        static const char *f1m[]
            = {"gamma", "sign", "erf", "erfc", "loggamma", "lambertw",
               "dirichlet_eta", "ceiling", "zeta", "primepi", "primorial"};
        static const char *f1s[]
            = {"ceil", "ceiling", "log10", "factorial", "root", "sqr"};
        static const char *f2m[]
            = {"pow", "beta", "log", "zeta", "lowergamma", "uppergamma",
               "polygamma", "kronecker_delta", "atan2"};
        static const char *fnm[] = {"max", "min", "levi_civita"};
        budget--;
        unsigned k = (unsigned)g.below(10);
        if (k < 5) {
            std::string name = f1[g.below(sizeof f1 / sizeof f1[0])];
            if (g.chance(1, 8)) // "Sin", "SIN": built-ins of the SBML grammar
                name[0] = (char)toupper((unsigned char)name[0]); // ignore case; the main grammar does not
            return name + ws() + "(" + expr(2) + ")";
        }
        if (sbml && g.chance(1, 3)) {
            // MathML-style names of the SBML grammar, in any letter case
            static const char *nary[] = {"plus", "times", "max", "min", "Plus", "TIMES", "MAX"};
            static const char *bin[] = {"minus", "divide", "pow", "power", "root", "log", "Power", "ROOT"};
            static const char *cmp[] = {"eq", "neq", "geq", "gt", "leq", "lt", "Eq", "GT", "Leq"};
            static const char *lg[] = {"and", "or", "xor", "And", "OR", "Xor"};
            switch (g.below(6)) {
                case 0: {
                    std::string s = std::string(nary[g.below(7)]) + "(";
                    unsigned n = (unsigned)g.below(4);
                    for (unsigned i = 0; i < n; i++)
                        s += (i ? "," + ws() : std::string()) + expr(1);
                    return s + ")";
                }
                case 1:
                    return std::string(bin[g.below(8)]) + "(" + small_arg() + "," + ws() + small_arg() + ")";
                case 2: {
                    std::string s = std::string(cmp[g.below(9)]) + "(" + expr(1);
                    unsigned n = (unsigned)g.below(3);
                    for (unsigned i = 0; i < n; i++)
                        s += "," + ws() + expr(1);
                    return s + ")";
                }
                case 3: {
                    std::string s = std::string(lg[g.below(6)]) + "(";
                    unsigned n = (unsigned)g.below(3);
                    for (unsigned i = 0; i < n; i++)
                        s += (i ? "," : "") + boolean(0);
                    return s + ")";
                }
                case 4:
                    return std::string(g.chance(1, 2) ? "not" : "NOT") + "(" + boolean(0) + ")";
                default: {
                    std::string s = std::string(g.chance(1, 3) ? "Piecewise" : "piecewise") + "(";
                    unsigned n = 1 + (unsigned)g.below(2);
                    for (unsigned i = 0; i < n; i++)
                        s += expr(1) + "," + ws() + boolean(0) + ",";
                    return s + ws() + expr(1) + ")";
                }
            }
        }
        if (k < 7) {
            if (sbml)
                return std::string(f1s[g.below(6)]) + "(" + expr(2) + ")";
            return std::string(f1m[g.below(11)]) + "(" + small_arg() + ")";
        }
        if (k == 7 && !sbml)
            return std::string(f2m[g.below(9)]) + "(" + small_arg() + "," + ws()
                   + small_arg() + ")";
        if (k == 8 && !sbml) {
            std::string s = std::string(fnm[g.below(3)]) + "(" + expr(2);
            unsigned n = 1 + (unsigned)g.below(3);
            for (unsigned i = 0; i < n; i++)
                s += "," + ws() + expr(2);
            return s + ")";
        }
        // unknown function name -> FunctionSymbol
        {
            std::string s = std::string(g.chance(1, 2) ? "f" : "g_1") + "(";
            if (g.chance(1, 6) && !sbml)
                return s + ")";
            s += expr(2);
            unsigned n = (unsigned)g.below(3);
            for (unsigned i = 0; i < n; i++)
                s += "," + expr(2);
            return s + ")";
        }
    }
    // arguments of number-theoretic / special functions stay small
    std::string small_arg()
    {
        if (g.chance(1, 12)) { // doubles that are infinite, zero or NaN-producing once parsed
            static const char *odd[] = {"1e999", "-1e999", "1e-999", "1.5e400", "0.0", "-0.0", "1e308*10"};
            return odd[g.below(7)];
        }
        if (g.chance(1, 2))
            return std::to_string(g.below(30));
        if (g.chance(1, 2))
            return ident();
        return std::to_string(1 + g.below(9)) + "/" + std::to_string(2 + g.below(7));
    }
    std::string rel()
    {
        static const char *ops[] = {"<", ">", "<=", ">=", "==", "!="};
        budget--;
        return expr(2) + ws() + ops[g.below(6)] + ws() + expr(2);
    }
    std::string boolean(int depth)
    {
        budget--;
        if (depth <= 0 || g.chance(1, 2) || budget <= 0)
            return "(" + rel() + ")";
        if (sbml) {
            switch (g.below(3)) {
                case 0:
                    return boolean(depth - 1) + ws() + "&&" + ws()
                           + boolean(depth - 1);
                case 1:
                    return boolean(depth - 1) + "||" + boolean(depth - 1);
                default:
                    return "!" + boolean(depth - 1);
            }
        }
        if (g.chance(1, 12)) {
            // an operand that is not a boolean at all: a number, a negative
            // long integer, a Piecewise - the parser has to refuse it cleanly
            static const char *ops1[] = {"~", "Not"};
            std::string bad;
            switch (g.below(4)) {
                case 0:
                    bad = "-" + number();
                    break;
                case 1:
                    bad = "Piecewise((" + expr(1) + ", " + boolean(0) + "), (" + atom() + ", True))";
                    break;
                case 2:
                    bad = "(-18446744073709551615)";
                    break;
                default:
                    bad = atom();
            }
            if (g.chance(1, 2))
                return std::string(ops1[g.below(2)]) + "(" + bad + ")";
            return boolean(depth - 1) + (g.chance(1, 2) ? " & " : " | ") + bad;
        }
        switch (g.below(7)) {
            case 6: // '^' between booleans: Xor when convert_xor is false, a power otherwise
                return boolean(depth - 1) + ws() + "^" + ws() + boolean(depth - 1);
            case 0:
                return boolean(depth - 1) + ws() + "&" + ws() + boolean(depth - 1);
            case 1:
                return boolean(depth - 1) + "|" + boolean(depth - 1);
            case 2:
                return "~" + boolean(depth - 1);
            case 3: {
                static const char *fs[] = {"And", "Or", "Xor", "Nand", "Nor", "Xnor"};
                return std::string(fs[g.below(6)]) + "(" + boolean(depth - 1) + ","
                       + ws() + boolean(depth - 1) + ")";
            }
            case 4:
                return "Not(" + boolean(depth - 1) + ")";
            default: {
                static const char *fs[] = {"Eq", "Ne", "Ge", "Gt", "Le", "Lt",
                                           "Equality", "StrictLessThan"};
                return std::string(fs[g.below(8)]) + "(" + expr(1) + ", " + expr(1)
                       + ")";
            }
        }
    }
    std::string expr(int depth)
    {
        budget--;
        if (depth <= 0 || budget <= 0)
            return atom();
        switch (g.below(16)) {
            case 0:
            case 1:
                return expr(depth - 1) + ws() + "+" + ws() + expr(depth - 1);
            case 2:
                return expr(depth - 1) + ws() + "-" + ws() + expr(depth - 1);
            case 3:
            case 4:
                return expr(depth - 1) + ws() + "*" + ws() + expr(depth - 1);
            case 5:
                return expr(depth - 1) + "/" + expr(depth - 1);
            case 6: // power with a safe exponent, never nested
                return "(" + expr(depth - 1) + ")" + (sbml ? "^" : (g.chance(1, 2) ? "**" : "^"))
                       + (g.chance(1, 3) ? ident()
                                         : (g.chance(1, 4) ? "(1/2)" : std::to_string(g.below(6))));
            case 7:
                return "(" + ws() + expr(depth - 1) + ws() + ")";
            case 8:
                return "-" + expr(depth - 1);
            case 9:
                return "+" + atom();
            case 10:
            case 11:
                return func();
            case 12:
                if (!sbml) {
                    std::string s = "Piecewise((" + expr(depth - 1) + "," + ws()
                                    + boolean(1) + ")";
                    if (g.chance(1, 2))
                        s += ", (" + expr(depth - 1) + ", " + boolean(1) + ")";
                    return s + ", (" + expr(depth - 1) + ", True))";
                }
                return expr(depth - 1) + " % " + atom();
            case 13:
                return boolean(2);
            default:
                return atom();
        }
    }
};

// not derived from the grammar at all: tokens and bytes in random order
std::string gen_soup(Rng &g)
{
    static const char *tok[] = {"x", "y", "1", "2", "0", "10", ".", "e", "E", "+", "-", "*", "/", "**", "^",
                                "(", ")", ",", " ", "\t", "\n", "<", ">", "=", "==", "<=", ">=", "!=", "!",
                                "&", "|", "~", "&&", "||", "@", "%", "sin", "cos", "log", "sqrt", "abs",
                                "max", "min", "Piecewise", "piecewise", "True", "False", "pi", "I", "oo",
                                "zoo", "nan", "And", "Or", "Not", "Eq", "Lt", "f", "_", "1e", "1e+", "0x",
                                "3.", ".5", "5.e2", "1e309", "1e-400", "\xce\xb1", "\xff", "\x80", "\x01",
                                "\x7f", "$", "#", "?", ":", ";", "[", "]", "{", "}", "\"", "'", "\\", "`"};
    unsigned n = 1 + (unsigned)g.below(g.chance(1, 4) ? 60 : 14);
    std::string s;
    for (unsigned i = 0; i < n; i++)
        s += tok[g.below(sizeof tok / sizeof tok[0])];
    return s;
}

std::string gen_valid(Rng &g, bool sbml, int depth)
{
    G gg{g, sbml, 40};
    std::string s = gg.ws() + gg.expr(depth) + gg.ws();
    // deep nesting: pushes the bison stack past its initial allocation
    if (g.chance(1, 30)) {
        unsigned n = 150 + (unsigned)g.below(150);
        s = std::string(n, '(') + s + std::string(n, ')');
    }
    return s;
}

Json gen_fault(Rng &g, Rng &gs, bool sbml)
{
    Json f = Json::object();
    static const char *kinds[] = {"trunc", "byte", "nul", "dup",   "del",
                                  "splice", "paren", "opbyte", "swap", "tail", "head"};
    std::string k = kinds[g.below(11)];
    f["kind"] = k;
    f["at"] = (long long)g.below(1000);
    if (k == "byte")
        f["v"] = (long long)g.below(256);
    if (k == "opbyte") {
        static const char ops[] = "+-*/^(),<>=!|&~@.e ";
        f["v"] = (long long)(unsigned char)ops[g.below(sizeof ops - 1)];
    }
    if (k == "tail" || k == "head") {
        // a byte no token starts with, as the last / first thing in the input
        static const char odd[] = "$#`?\\\"';:[]{}\x01\x7f%@";
        f["v"] = (long long)(unsigned char)odd[g.below(sizeof odd - 1)];
        f["len"] = (long long)g.below(3); // blanks after (before) it
    }
    if (k == "dup" || k == "del")
        f["len"] = (long long)(1 + g.below(12));
    if (k == "splice")
        f["with"] = gen_valid(gs, sbml, 2);
    if (k == "paren")
        f["v"] = g.chance(1, 2) ? 40 : 41;
    return f;
}

Json gen(uint64_t seed, const std::string &tier)
{
    Rng g(seed);
    bool thorough = tier == "thorough";
    Json plan = Json::object();
    Json cfg = Json::object();
    cfg["local_constants"] = g.chance(1, 3);
    // swarm: fault rate and enabled fault mix for this run
    unsigned fault_pct = (unsigned)g.below(4) * 25; // 0,25,50,75
    cfg["fault_pct"] = fault_pct;
    // allocator seam: when is a freed address handed out again (the
    // sanitizer's quarantine would otherwise hide every address reuse)
    static const char *pol[] = {"system", "lifo", "lifo", "fifo", "random"};
    cfg["policy"] = pol[g.below(5)];
    cfg["alloc_seed"] = (long long)(g.next() >> 2);
    plan["config"] = cfg;
    unsigned n = 10 + (unsigned)g.below(thorough ? 110 : 70);
    Json ops = Json::array();
    for (unsigned i = 0; i < n; i++) {
        Json o = Json::object();
        if (i > 0 && g.chance(1, 6)) {
            // the same bytes again on the same object (right away, or a few
            // inputs later), possibly with convert_xor flipped
            size_t back = 1 + (size_t)g.below(g.chance(2, 3) ? 1 : 4);
            o = ops[ops.size() - std::min(back, ops.size())];
            o["again"] = true;
            if (g.chance(1, 4))
                o["xor"] = !o.at("xor").as_bool();
            ops.push(o);
            continue;
        }
        unsigned w = (unsigned)g.below(10);
        bool sbml = w < 3;
        o["which"] = sbml ? (g.chance(1, 4) ? "free_sbml" : "sbml") : (w == 3 ? "free" : "main");
        // the free functions take a constant map per call: same names,
        // different values from call to call
        o["consts"] = (unsigned)g.below(3);
        Rng gs = g.fork();
        o["src"] = g.chance(1, 12) ? gen_soup(gs) : gen_valid(gs, sbml, 1 + (int)g.below(3));
        o["xor"] = !g.chance(1, 4);
        Json fs = Json::array();
        if (g.below(100) < fault_pct) {
            fs.push(gen_fault(g, gs, sbml));
            if (g.chance(1, 4))
                fs.push(gen_fault(g, gs, sbml));
        }
        o["faults"] = fs;
        ops.push(o);
    }
    plan["ops"] = ops;
    return plan;
}

// ---------------- execution ------------------------------------------------
std::string apply_faults(const std::string &src, const Json &faults, Run &run)
{
    std::string s = src;
    for (size_t i = 0; i < faults.size(); i++) {
        const Json &f = faults[i];
        std::string k = f.gets("kind");
        size_t at = s.empty() ? 0 : (size_t)(f.geti("at") % (int64_t)(s.size() + 1));
        if (k == "trunc") {
            s.resize(at);
        } else if (k == "byte" || k == "opbyte") {
            if (!s.empty())
                s[at % s.size()] = (char)f.geti("v");
        } else if (k == "nul") {
            if (!s.empty())
                s[at % s.size()] = '\0';
        } else if (k == "dup") {
            size_t len = (size_t)f.geti("len", 1);
            std::string span = s.substr(std::min(at, s.size()), len);
            s.insert(std::min(at, s.size()), span);
        } else if (k == "del") {
            if (at < s.size())
                s.erase(at, (size_t)f.geti("len", 1));
        } else if (k == "splice") {
            std::string w = f.gets("with");
            s = s.substr(0, at) + w.substr(w.size() / 2);
        } else if (k == "paren") {
            s.insert(std::min(at, s.size()), 1, (char)f.geti("v", 40));
        } else if (k == "tail") {
            s.push_back((char)f.geti("v", '$'));
            s.append((size_t)(f.geti("len") % 4), ' ');
        } else if (k == "head") {
            s.insert(0, std::string(1, (char)f.geti("v", '$')) + std::string((size_t)(f.geti("len") % 4), ' '));
        } else if (k == "swap") {
            if (s.size() >= 2) {
                size_t a = at % (s.size() - 1);
                std::swap(s[a], s[a + 1]);
            }
        } else
            continue;
        run.fault(k);
    }
    return s;
}

// conservative filter: inputs whose evaluation could legitimately take very
// long (towers of powers, number-theoretic functions of huge arguments) are
// not run at all; see DESIGN.md (C18, false-alarm risks)
bool cheap(const std::string &s0)
{
    std::string s = s0.substr(0, s0.find('\0'));
    if (s.size() > 2500)
        return false;
    for (auto &c : s) // the SBML grammar ignores the case of built-in names
        c = (char)tolower((unsigned char)c);
    size_t npow = 0, maxrun = 0, runs = 0, run = 0;
    bool big_digit = false;
    for (size_t i = 0; i < s.size(); i++) {
        if (s[i] == '^' || s[i] == '@'
            || (s[i] == '*' && i + 1 < s.size() && s[i + 1] == '*'))
            npow++;
        if (isdigit((unsigned char)s[i])) {
            if (run == 0)
                runs++;
            run++;
            maxrun = std::max(maxrun, run);
            if (s[i] > '4')
                big_digit = true;
        } else
            run = 0;
    }
    for (const char *w : {"pow", "root", "sqr"})
        for (size_t p = s.find(w); p != std::string::npos; p = s.find(w, p + 1))
            npow++;
    // functions whose cost (time, memory, recursion depth) grows with the
    // VALUE of a literal argument
    size_t special = 0;
    for (const char *w : {"gamma", "primorial", "primepi", "zeta", "beta",
                          "factorial", "levi_civita", "dirichlet_eta", "lambertw"})
        for (size_t p = s.find(w); p != std::string::npos; p = s.find(w, p + 1))
            special++;
    // magnitude of the numeric literals: what matters for cost is the value,
    // not the spelling. A literal that overflows to infinity (1e999) or
    // underflows to zero costs nothing; a finite one above 9999 may.
    bool big_literal = false, exp_literal_big = false;
    for (size_t i = 0; i < s.size();) {
        if (isdigit((unsigned char)s[i]) || (s[i] == '.' && i + 1 < s.size() && isdigit((unsigned char)s[i + 1]))) {
            char *end = nullptr;
            double v = strtod(s.c_str() + i, &end);
            size_t len = (size_t)(end - (s.c_str() + i));
            if (len == 0)
                len = 1;
            bool has_exp = false;
            for (size_t k = i; k < i + len; k++)
                if (s[k] == 'e')
                    has_exp = true;
            if (std::isfinite(v) && std::fabs(v) > 9999.0) {
                big_literal = true;
                if (has_exp)
                    exp_literal_big = true;
            }
            i += len;
        } else
            i++;
    }
    if (special && (big_literal || npow > 0))
        return false;
    // nested or repeated ones (gamma(gamma(18)) = factorial(17! - 1),
    // primepi(gamma(20)), ...) reach astronomically large arguments from
    // two-digit literals
    if (special > 1)
        return false;
    (void)exp_literal_big;
    // zeta, dirichlet_eta and polygamma of integers compute Bernoulli numbers
    // with the built-in quadratic algorithm (no FLINT/Arb here): B_1410 takes
    // 4 s, B_2526 half a minute on the shipped build
    for (const char *w : {"zeta", "dirichlet_eta", "polygamma"})
        if (s.find(w) != std::string::npos && maxrun > 2)
            return false;
    if (runs == 0)
        return true;
    if (npow == 0)
        return true;
    if (npow == 1)
        return maxrun <= 5;
    if (npow == 2)
        return maxrun <= 1 && !big_digit && runs <= 3;
    return false;
}

// Inputs of a listed known finding (known_findings.jsonl, C18, signature
// asan:stack-overflow:recursion=lowergamma / =uppergamma): lowergamma(n, x)
// and uppergamma(n, x) recurse n deep for an integer or half-integer n and
// return an expression nested n deep, so the stack overflows in the function
// itself (n >~ 5e4 on the shipped build, n >~ 5e3 with sanitizer-sized
// frames) or later in whatever walks the result (printing, destruction). The
// family is identified by its input: one of the two names with a literal of
// four or more digits inside its argument list. Random exploration leaves it
// out, because each of those later overflows would surface under another
// signature; the finding itself
// is replayed from known/C18/ at the start of every check (plan config
// "run_known_family": true) for as long as it is listed.
bool known_deep_recursion_family(const std::string &s0)
{
    std::string s = s0.substr(0, s0.find('\0'));
    for (auto &c : s)
        c = (char)tolower((unsigned char)c);
    for (const char *w : {"lowergamma", "uppergamma"})
        for (size_t p = s.find(w); p != std::string::npos; p = s.find(w, p + 1)) {
            // the text of the call's argument list: up to the matching ')'
            // (to the end of the input if it is unbalanced)
            size_t i = p + strlen(w);
            int depth = 0;
            size_t run = 0;
            for (; i < s.size(); i++) {
                char c = s[i];
                if (c == '(')
                    depth++;
                else if (c == ')' && --depth <= 0)
                    break;
                run = isdigit((unsigned char)c) ? run + 1 : 0;
                if (run >= 4)
                    return true;
            }
        }
    return false;
}

std::map<const std::string, const RCP<const Basic>> local_constants(unsigned variant = 1)
{
    if (variant == 2) // the same names bound to other values
        return {{"c0", integer(-7)},
                {"kk", symbol("kappa")},
                {"x_1", add(symbol("y"), integer(3))}};
    return {{"c0", integer(42)},
            {"kk", add(symbol("x"), integer(1))},
            {"x_1", symbol("renamed")}};
}

struct AllocScope {
    AllocScope(simalloc::Policy p, uint64_t seed)
    {
        simalloc::configure(p, seed, (size_t)256 << 20, (size_t)2 << 30);
        simalloc::reset_counters();
    }
    ~AllocScope()
    {
        simalloc::deactivate();
    }
};

template <class P>
std::string outcome_of(P &p, const std::string &s, bool xr, bool sbml);

std::string describe(const std::function<RCP<const Basic>()> &f)
{
    try {
        RCP<const Basic> r = f();
        if (r.is_null())
            return "null-result";
        return "ok:" + r->__str__();
    } catch (const SymEngineException &e) {
        return "throw:" + demangle(typeid(e).name()) + ":" + e.what();
    }
    // anything else propagates: it is a violation of the safety clause
}

std::string printable(const std::string &s)
{
    std::string out;
    for (unsigned char c : s.substr(0, 160)) {
        if (c >= 0x20 && c < 0x7f && c != '\\')
            out.push_back((char)c);
        else {
            char b[8];
            snprintf(b, sizeof b, "\\x%02x", c);
            out += b;
        }
    }
    if (s.size() > 160)
        out += "...";
    return out;
}

void exec(Run &run)
{
    bool lc = run.plan.at("config").at("local_constants").as_bool();
    auto consts = lc ? local_constants()
                     : std::map<const std::string, const RCP<const Basic>>();
    bool run_known_family
        = run.plan.at("config").has("run_known_family")
          && run.plan.at("config").at("run_known_family").as_bool();
    std::string pol = run.plan.at("config").gets("policy", "system");
    simalloc::Policy policy = pol == "lifo"     ? simalloc::LIFO
                              : pol == "fifo"   ? simalloc::FIFO
                              : pol == "random" ? simalloc::RANDOM
                                                : simalloc::SYSTEM;
    AllocScope scope(policy, (uint64_t)run.plan.at("config").geti("alloc_seed", 1));
    run.fault("alloc_policy_" + pol);
    std::unique_ptr<Parser> reused(new Parser(consts));
    std::unique_ptr<SbmlParser> reused_sbml(new SbmlParser(consts));
    const Json &ops = run.plan.at("ops");
    bool last_failed_main = false, last_failed_sbml = false;
    unsigned after_fail = 0;
    for (size_t k = 0; k < ops.size() && !run.failed(); k++) {
        const Json &o = ops[k];
        run.steps++;
        std::string which = o.gets("which", "main");
        bool xr = o.at("xor").as_bool();
        std::string s = apply_faults(o.gets("src"), o.at("faults"), run);
        if (o.has("again") && o.at("again").as_bool())
            run.probe("same_input_again");
        if (!run_known_family && known_deep_recursion_family(s)) {
            run.probe("skipped_known_finding_family");
            run.ev("skip known-finding family");
            continue;
        }
        if (!cheap(s)) {
            run.probe("skipped_potentially_expensive");
            run.ev("skip expensive");
            continue;
        }
        std::string got, want, where;
        try {
            where = "reused";
            if (which == "sbml") {
                got = describe([&] { return reused_sbml->parse(s); });
                where = "fresh";
                SbmlParser fresh(consts);
                want = describe([&] { return fresh.parse(s); });
                if (last_failed_sbml) {
                    run.probe("parse_after_failed_parse");
                    after_fail++;
                }
                last_failed_sbml = got.compare(0, 3, "ok:") != 0;
            } else if (which == "free_sbml") {
                // parse_sbml(): no object in the caller's hands at all
                unsigned cv = (unsigned)o.geti("consts") % 3;
                auto cm = cv ? local_constants(cv) : std::map<const std::string, const RCP<const Basic>>();
                got = describe([&] { return parse_sbml(s, cm); });
                where = "fresh";
                SbmlParser fresh(cm);
                want = describe([&] { return fresh.parse(s); });
                run.probe("free_function_with_constants_variant_" + std::to_string(cv));
            } else {
                if (which == "free") {
                    unsigned cv = (unsigned)o.geti("consts") % 3;
                    auto cm = cv ? local_constants(cv) : std::map<const std::string, const RCP<const Basic>>();
                    got = describe([&] { return parse(s, xr, cm); });
                    where = "fresh";
                    Parser fresh(cm);
                    want = describe([&] { return fresh.parse(s, xr); });
                    run.probe("free_function_with_constants_variant_" + std::to_string(cv));
                } else {
                    got = describe([&] { return reused->parse(s, xr); });
                    if (last_failed_main) {
                        run.probe("parse_after_failed_parse");
                        after_fail++;
                    }
                    last_failed_main = got.compare(0, 3, "ok:") != 0;
                }
                if (which != "free") {
                    where = "fresh";
                    Parser fresh(consts);
                    want = describe([&] { return fresh.parse(s, xr); });
                }
            }
        } catch (const std::exception &e) {
            run.ev("input " + printable(s));
            run.fail("non-library-exception:" + demangle(typeid(e).name()),
                     which + " parser (" + where + ") threw "
                         + demangle(typeid(e).name()) + " (" + e.what()
                         + ") on input \"" + printable(s) + "\"");
            break;
        }
        if (got.compare(0, 3, "ok:") == 0)
            run.probe("parse_ok");
        else
            run.probe("parse_error");
        run.ev(which + (xr ? " x " : " - ") + printable(s) + " => "
               + got.substr(0, 200));
        if (got != want) {
            run.fail(std::string("reused-differs-from-fresh:") + which,
                     which + " on input \"" + printable(s) + "\": reused/free gives ["
                         + got.substr(0, 300) + "], fresh parser gives ["
                         + want.substr(0, 300) + "]");
        }
    }
    run.nontrivial = after_fail >= 1;
}

} // namespace

int main(int argc, char **argv)
{
    Check c = {"C18", 18, gen, exec, nullptr};
    return harness_main(argc, argv, c);
}
