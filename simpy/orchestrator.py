"""Parent process of the simulator: build, fan out runs to in-process workers,
collect, gate, minimise, report, write evidence.

Design rules kept here:
  * run r of a check is a pure function of (VERIF_SEED, check, r): the mapping
    does not depend on the number of workers or on which worker ran it.
  * nothing here feeds a clock or a PRNG into a run; the only clock use is the
    watchdog (turns a stuck run into 'hang') and wall-time reporting.
  * a violation is believed only after it reproduced twice in fresh processes
    with the same signature and the same event-log hash.
"""
import argparse, json, os, re, subprocess, sys, threading, time, hashlib, queue, shutil, glob

VERIF = os.path.abspath(os.path.join(os.path.dirname(os.path.abspath(__file__)), '..'))
sys.path.insert(0, os.path.join(VERIF, 'simpy'))
from checks import CHECKS  # noqa: E402
import shrink as shrinker  # noqa: E402

TMP = os.path.join(VERIF, 'build', 'tmp')
HANG_FACTOR = 4


def log(*a):
    print(*a, flush=True)


# --------------------------------------------------------------------------
# build
def build(cfg):
    t0 = time.time()
    for variant in cfg['variants']:
        r = subprocess.run([os.path.join(VERIF, 'bin', 'build-lib'), variant, '--quiet'],
                           cwd=VERIF, stdout=subprocess.PIPE, stderr=subprocess.STDOUT, text=True)
        if r.returncode != 0:
            log(r.stdout[-4000:])
            log('MACHINERY-FAILURE: library build failed for variant', variant)
            return False
    lock = open(os.path.join(VERIF, 'build', '.make.lock'), 'w')
    import fcntl
    fcntl.flock(lock, fcntl.LOCK_EX)
    r = subprocess.run(['make', '-s', '-j', '8'] + cfg['targets'], cwd=VERIF,
                       stdout=subprocess.PIPE, stderr=subprocess.STDOUT, text=True)
    fcntl.flock(lock, fcntl.LOCK_UN)
    if r.returncode != 0:
        log(r.stdout[-6000:])
        log('MACHINERY-FAILURE: harness build failed')
        return False
    log('build ok (%.1fs)' % (time.time() - t0))
    return True


# --------------------------------------------------------------------------
# crash classification (sanitizer reports, signals) -> stable signature
OOB = ('heap-buffer-overflow', 'container-overflow', 'stack-buffer-overflow',
       'global-buffer-overflow', 'dynamic-stack-buffer-overflow', 'stack-buffer-underflow')
FRAME = re.compile(r'^\s*#(\d+) 0x[0-9a-f]+ in (.+?) (/\S+?):(\d+)')
FRAME2 = re.compile(r'^\s*#(\d+) 0x[0-9a-f]+ in (.+?) \(')
# gcc's libsanitizer prints '#0 addr in func file:line'; TSan prints '#0 func file:line (bin+off)'
TFRAME = re.compile(r'^\s*#(\d+) (.+?) (/\S+?):(\d+)')


def short_fn(fn):
    fn = re.sub(r'\(.*$', '', fn)            # drop argument list
    fn = re.sub(r'<[^<>]*>', '', fn)         # drop one level of template args
    fn = re.sub(r'<[^<>]*>', '', fn)
    fn = fn.replace('SymEngine::', '')
    return fn.strip()[:120]


def first_lib_frame(lines, start):
    """first frame of the first stack after line `start` that is SymEngine code"""
    seen_stack = False
    fallback = None
    for ln in lines[start:]:
        m = FRAME.match(ln) or TFRAME.match(ln)
        if m:
            seen_stack = True
            path = m.group(3)
            if '/symengine/' in path and '/verif/' not in path:
                where = 'cereal' if '/cereal/' in path else ''
                name = short_fn(m.group(2)) + ('' if not where else '[cereal]')
                # prefer the first frame that is not smart-pointer plumbing
                if path.endswith('symengine_rcp.h') or path.endswith('/basic-inl.h'):
                    fallback = fallback or name
                    continue
                return name
        elif seen_stack and not (FRAME2.match(ln)):
            if ln.strip() == '':
                break
    return fallback or '?'


def recursion_frame(lines, start):
    """for a stack overflow: the library function that occurs most often in
    the reported stack (the recursion), which - unlike the innermost frame, an
    accident of where the stack happened to run out - names the defect"""
    count, order = {}, []
    for ln in lines[start:]:
        m = FRAME.match(ln)
        if not m:
            if order and ln.strip() == '':
                break
            continue
        path = m.group(3)
        if '/symengine/' not in path or '/verif/' in path:
            continue
        if path.endswith('symengine_rcp.h') or path.endswith('/basic-inl.h'):
            continue
        name = short_fn(m.group(2))
        if name not in count:
            count[name] = 0
            order.append(name)
        count[name] += 1
    if not order:
        return None
    best = max(order, key=lambda n: count[n])
    return best if count[best] >= 8 else None


def classify_death(returncode, stderr_text, timed_out=False):
    if timed_out:
        return 'hang', 'run exceeded the watchdog'
    lines = stderr_text.splitlines()
    for i, ln in enumerate(lines):
        m = re.search(r'ERROR: AddressSanitizer: (\S+)', ln)
        if m:
            kind = m.group(1)
            if kind in OOB:
                kind = 'oob'
            elif kind in ('heap-use-after-free', 'use-after-poison'):
                kind = 'uaf'
            elif kind in ('SEGV', 'BUS', 'FPE', 'ILL'):
                kind = kind.lower()
            elif kind in ('attempting', 'attempting-double-free'):
                kind = 'bad-free'
            if kind == 'stack-overflow':
                rec = recursion_frame(lines, i)
                if rec:
                    return 'asan:stack-overflow:recursion=%s' % rec, '\n'.join(lines[i:i + 24])
            acc = ''
            for l2 in lines[i + 1:i + 3]:
                if l2.startswith('READ'):
                    acc = 'read'
                if l2.startswith('WRITE'):
                    acc = 'write'
            return 'asan:%s:%s' % (kind, first_lib_frame(lines, i)), '\n'.join(lines[i:i + 14])
        m = re.search(r'ERROR: AddressSanitizer failed to allocate|ERROR: AddressSanitizer: requested allocation size|allocation-size-too-big|out-of-memory', ln)
        if m:
            return 'asan:alloc-too-big:%s' % first_lib_frame(lines, i), '\n'.join(lines[i:i + 14])
        m = re.search(r'(\S+):(\d+):(\d+): runtime error: (.*)', ln)
        if m:
            msg = re.sub(r'0x[0-9a-f]+', 'ADDR', m.group(4))
            msg = re.sub(r'-?\d+(\.\d+)?(e[+-]?\d+)?', 'N', msg)
            msg = re.sub(r"'[^']*'", 'T', msg)[:60]
            fr = first_lib_frame(lines, i)
            if fr == '?':
                fr = os.path.basename(m.group(1)) + ':' + m.group(2)
            return 'ubsan:%s:%s' % (msg.strip(), fr), '\n'.join(lines[i:i + 10])
        m = re.search(r'WARNING: ThreadSanitizer: (.+?) \(pid', ln)
        if m:
            kind = m.group(1).replace(' ', '-')
            # the two top library frames: first stack and second stack
            frs = []
            j = i
            while j < len(lines) and len(frs) < 2:
                if re.match(r'^\s+(Write|Read|Previous|Atomic|Mutex|Thread).* of size|^\s+(Previous )?(atomic )?(write|read) of size', lines[j], re.I):
                    frs.append(first_lib_frame(lines, j + 1))
                j += 1
            frs = sorted(set(frs)) or ['?']
            return 'tsan:%s:%s' % (kind, '|'.join(frs)), '\n'.join(lines[i:i + 30])
    if 'terminate called' in stderr_text:
        m = re.search(r"terminate called after throwing an instance of '([^']+)'", stderr_text)
        return 'terminate:%s' % (m.group(1) if m else '?'), stderr_text[-1500:]
    if returncode is not None and returncode < 0:
        return 'signal:%d' % (-returncode), stderr_text[-1500:]
    return 'died:exit%s' % returncode, stderr_text[-1500:]


# --------------------------------------------------------------------------
# executing one plan in a fresh process (replay, gating, shrinking)
def file_hash(path):
    h = hashlib.sha1()
    try:
        with open(path, 'rb') as f:
            h.update(f.read())
    except OSError:
        pass
    return h.hexdigest()[:16]


_exec_counter = [0]
_exec_lock = threading.Lock()


def exec_plan(cfg, plan, binary=None, keep_events=False, timeout=None):
    """returns dict(sig, detail, hash, result)"""
    with _exec_lock:
        _exec_counter[0] += 1
        n = _exec_counter[0]
    os.makedirs(TMP, exist_ok=True)
    base = os.path.join(TMP, 'exec-%d-%d' % (os.getpid(), n))
    pf, ef, sf = base + '.plan.json', base + '.events', base + '.stderr'
    with open(pf, 'w') as f:
        json.dump(plan, f)
    binary = binary or cfg['binaries'][0]
    timed_out = False
    with open(sf, 'w') as serr:
        try:
            r = subprocess.run([os.path.join(VERIF, binary), '--exec', pf, '--events', ef],
                               cwd=VERIF, stdout=subprocess.PIPE, stderr=serr, text=True,
                               timeout=timeout or cfg.get('exec_timeout', 120), env=child_env(cfg))
            rc, out = r.returncode, r.stdout
        except subprocess.TimeoutExpired as e:
            timed_out, rc, out = True, None, (e.stdout or '')
            if isinstance(out, bytes):
                out = out.decode('latin-1')
    stderr_text = open(sf, errors='replace').read()
    res = None
    for ln in out.splitlines():
        if ln.startswith('RESULT '):
            res = json.loads(ln[7:])
    ev_hash = file_hash(ef)
    if res is not None and rc in (0, 1):
        d = dict(sig=res['sig'], detail=res['detail'], hash=ev_hash, result=res)
    else:
        sig, detail = classify_death(rc, stderr_text, timed_out)
        d = dict(sig=sig, detail=detail, hash=ev_hash, result=None)
    if keep_events:
        d['events_file'] = ef
    else:
        for p in (pf, ef, sf):
            try:
                os.unlink(p)
            except OSError:
                pass
    return d


def child_env(cfg):
    env = dict(os.environ)
    env.pop('ASAN_OPTIONS', None)
    env.pop('TSAN_OPTIONS', None)
    env.pop('UBSAN_OPTIONS', None)
    env.update(cfg.get('env', {}))
    return env


def gen_plan(cfg, tier, seed, run):
    r = subprocess.run([os.path.join(VERIF, cfg['binaries'][0]), '--gen', tier, str(seed), str(run)],
                       cwd=VERIF, stdout=subprocess.PIPE, stderr=subprocess.PIPE, text=True, env=child_env(cfg))
    if r.returncode != 0:
        raise RuntimeError('plan generation failed: ' + r.stderr[-2000:])
    return json.loads(r.stdout)


# --------------------------------------------------------------------------
# workers
class Worker(threading.Thread):
    def __init__(self, pool, wid, binary):
        super().__init__(daemon=True)
        self.pool, self.wid, self.binary = pool, wid, binary
        self.proc = None
        self.inflight = None
        self.inflight_since = None
        self.killed_for_timeout = False
        self.runs_in_proc = 0
        self.history = []     # runs this process has executed so far, in order

    def start_proc(self):
        cfg = self.pool.cfg
        os.makedirs(TMP, exist_ok=True)
        self.errpath = os.path.join(TMP, 'worker-%d-%d-%s.stderr' % (os.getpid(), self.wid, os.path.basename(self.binary)))
        self.errf = open(self.errpath, 'w')
        self.proc = subprocess.Popen([os.path.join(VERIF, self.binary), '--worker', self.pool.tier, str(self.pool.seed)],
                                     cwd=VERIF, stdin=subprocess.PIPE, stdout=subprocess.PIPE, stderr=self.errf,
                                     text=True, bufsize=1, env=child_env(cfg), errors='replace')
        self.runs_in_proc = 0
        self.history = []

    def finish_proc(self):
        """close stdin, read the E line"""
        try:
            self.proc.stdin.close()
        except OSError:
            pass
        for ln in self.proc.stdout:
            if ln.startswith('E '):
                self.pool.add_summary(json.loads(ln[2:]))
        self.proc.wait()
        self.errf.close()

    def run(self):
        try:
            self.run_inner()
        except Exception as e:  # noqa
            self.pool.worker_errors.append(repr(e))

    def run_inner(self):
        pool = self.pool
        recycle = pool.cfg.get('recycle_runs', 0)
        self.start_proc()
        while True:
            chunk = pool.next_chunk()
            if chunk is None:
                break
            a, b = chunk
            done_upto = a
            try:
                self.proc.stdin.write('%d %d\n' % (a, b))
                self.proc.stdin.flush()
            except (BrokenPipeError, OSError):
                pass
            pending_v = None
            died = False
            while True:
                ln = self.proc.stdout.readline()
                if not ln:
                    died = True
                    break
                t = ln[0]
                if t == 'S':
                    self.inflight = int(ln[2:])
                    self.inflight_since = time.time()
                elif t == 'R':
                    parts = ln.split()
                    r = int(parts[1])
                    if self.inflight_since:
                        pool.note_duration(r, time.time() - self.inflight_since)
                    if pending_v is not None:
                        pending_v['history'] = list(self.history)
                    pool.add_result(r, parts[2], parts[3] == '1', int(parts[4]), pending_v)
                    self.history.append(r)
                    pending_v = None
                    self.inflight = None
                    done_upto = r + 1
                    self.runs_in_proc += 1
                elif t == 'V':
                    sp = ln.split(' ', 2)
                    pending_v = json.loads(sp[2])
                elif t == 'D':
                    break
            if died:
                self.proc.wait()
                self.errf.close()
                rc = self.proc.returncode
                err = open(self.errpath, errors='replace').read()
                r = self.inflight if self.inflight is not None else done_upto
                sig, detail = classify_death(rc, err, self.killed_for_timeout)
                self.killed_for_timeout = False
                pool.add_result(r, 'dead', True, 0, dict(sig=sig, detail=detail, died=True, history=list(self.history)))
                self.inflight = None
                if r + 1 < b:
                    pool.requeue((r + 1, b))
                self.start_proc()
                continue
            if recycle and self.runs_in_proc >= recycle:
                self.finish_proc()
                self.start_proc()
        self.finish_proc()


class Pool:
    def __init__(self, cfg, tier, seed, nruns, nworkers, chunk, wall_cap, binary):
        self.cfg, self.tier, self.seed = cfg, tier, seed
        self.nruns, self.chunk = nruns, chunk
        self.binary = binary
        self.next = 0
        self.lock = threading.Lock()
        self.requeued = []
        self.results = {}       # run -> (hash, nontrivial, steps)
        self.violations = {}    # run -> dict(sig, detail)
        self.summaries = []
        self.t0 = time.time()
        self.wall_cap = wall_cap
        self.capped = False
        self.nworkers = nworkers
        self.stop_after_sigs = cfg.get('stop_after_violations', 12)
        self.worker_errors = []
        self.durations = []

    def next_chunk(self):
        with self.lock:
            if self.requeued:
                return self.requeued.pop()
            if len(self.violations) >= self.stop_after_sigs:
                return None
            if time.time() - self.t0 > self.wall_cap:
                if self.next < self.nruns:
                    self.capped = True
                return None
            if self.next >= self.nruns:
                return None
            a = self.next
            b = min(self.nruns, a + self.chunk)
            self.next = b
            return (a, b)

    def requeue(self, ch):
        with self.lock:
            self.requeued.append(ch)

    def add_result(self, r, h, nontriv, steps, v):
        with self.lock:
            self.results[r] = (h, nontriv, steps)
            if v is not None:
                self.violations[r] = v

    def note_duration(self, r, d):
        with self.lock:
            self.durations.append((d, r))
            if len(self.durations) > 4000:
                self.durations.sort(reverse=True)
                del self.durations[50:]

    def add_summary(self, s):
        with self.lock:
            self.summaries.append(s)

    def run(self):
        ws = [Worker(self, i, self.binary) for i in range(self.nworkers)]
        for w in ws:
            w.start()
        limit = self.cfg.get('run_timeout', 60)
        while any(w.is_alive() for w in ws):
            time.sleep(0.25)
            now = time.time()
            for w in ws:
                if w.inflight is not None and w.inflight_since and now - w.inflight_since > limit:
                    w.killed_for_timeout = True
                    w.inflight_since = now
                    try:
                        w.proc.kill()
                    except OSError:
                        pass
        for w in ws:
            w.join()
        for p in glob.glob(os.path.join(TMP, 'worker-%d-*' % os.getpid())):
            try:
                os.unlink(p)
            except OSError:
                pass


# --------------------------------------------------------------------------
def load_known(prop):
    known, fixed = [], []
    p = os.path.join(VERIF, 'known_findings.jsonl')
    if os.path.exists(p):
        for ln in open(p):
            ln = ln.strip()
            if not ln or ln.startswith('#'):
                continue
            e = json.loads(ln)
            if e.get('property') != prop:
                continue
            (known if e.get('status') == 'known' else fixed).append(e)
    return known, fixed


def match_known(known, sig):
    for e in known:
        if e.get('signature') == sig:
            return e
    return None


_plan_cache = {}


def gen_plan_cached(cfg, tier, seed, run):
    key = (cfg['binaries'][0], tier, seed, run)
    if key not in _plan_cache:
        _plan_cache[key] = gen_plan(cfg, tier, seed, run)
    return _plan_cache[key]


def history_dependent(cfg, tier, seed, plan, v, binary):
    """the shortest suffix of the worker's earlier runs (then a smaller subset
    of it) after which the plan fails as the worker saw it; None if no such"""
    hist = v['history']
    want = v['sig']
    t_start = time.time()
    wall = cfg.get('history_wall', 420)

    def attempt(runs):
        p = dict(plan)
        p['sequence'] = [gen_plan_cached(cfg, tier, seed, r) for r in runs]
        p['sequence_runs'] = list(runs)
        timeout = cfg.get('exec_timeout', 120) * max(3, len(runs) // 20)
        return p, exec_plan(cfg, p, binary, timeout=timeout)
    k, found = 1, None
    while True:
        p, r = attempt(hist[-k:])
        if r['sig'] == want:
            found = hist[-k:]
            break
        if k >= len(hist) or time.time() - t_start > wall:
            break
        k = min(len(hist), k * 2)
    if found is None:
        return None
    # fewer earlier runs: remove chunks (halves, quarters, ... single runs)
    # while the failure persists, within a wall-clock budget
    chunk = max(1, len(found) // 2)
    while chunk >= 1 and len(found) > 1 and time.time() - t_start < wall:
        i = 0
        removed_any = False
        while i < len(found) and len(found) > 1 and time.time() - t_start < wall:
            cand = found[:i] + found[i + chunk:]
            if not cand:
                i += chunk
                continue
            p, r = attempt(cand)
            if r['sig'] == want:
                found = cand
                removed_any = True
            else:
                i += chunk
        if chunk == 1 and not removed_any:
            break
        chunk = chunk // 2 if chunk > 1 else (1 if removed_any else 0)
    p, a = attempt(found)
    _, b = attempt(found)
    log('NOTE: the violation needs the history of the worker process: after %d earlier run(s) of the same batch%s'
        % (len(found), (' ' + str(found)) if len(found) <= 12 else ''))
    return p, a, b


def process_violation(cfg, prop, tier, seed, run, v, binary):
    """gate, minimise, write replay. returns (status, sig, replay_path|None, info)"""
    plan = gen_plan(cfg, tier, seed, run)
    # A watchdog kill inside a loaded 16-worker batch only says 'slow here'.
    # It counts as a hang if the run, alone in a fresh process, is still not
    # done after HANG_FACTOR times the watchdog period; a run that completes
    # then is a slow run, which is reported as a note and not as a violation.
    long_timeout = HANG_FACTOR * cfg.get('exec_timeout', 120)
    a = exec_plan(cfg, plan, binary, timeout=long_timeout if v.get('sig') == 'hang' else None)
    if v.get('sig') == 'hang' and not a['sig']:
        return ('slow', 'hang', None, 'run %d was stopped by the watchdog inside the batch but completes '
                'when run alone (limit %ds): slow, not hung' % (run, long_timeout))
    b = exec_plan(cfg, plan, binary)
    if a['sig'] == 'hang' and b['sig'] == 'hang' and a['hash'] != b['hash']:
        # the two replays were cut at different points of the event log: either
        # the run is stuck in a step that the short replay never reached, or it
        # is still making progress
        b = exec_plan(cfg, plan, binary, timeout=long_timeout)
        if b['sig'] == 'hang' and a['hash'] != b['hash']:
            return ('slow', 'hang', None, 'run %d is still making progress after %ds when run alone (its event '
                    'log keeps growing): slow, not hung' % (run, long_timeout))
    if not a['sig'] and not b['sig'] and v.get('history') and v.get('sig') != 'hang':
        # Nothing fails when the plan runs alone in a fresh process, but it did
        # in the worker, which had executed other runs before it: the outcome
        # may depend on what those left behind in process-global state. Replay
        # the run together with (a suffix of) that history.
        hp = history_dependent(cfg, tier, seed, plan, v, binary)
        if hp is not None:
            plan, a, b = hp
    if not a['sig'] or a['sig'] != b['sig'] or a['hash'] != b['hash']:
        return ('nondeterministic', v['sig'], None,
                'worker saw %r; fresh replays gave %r/%s and %r/%s' % (v['sig'], a['sig'], a['hash'], b['sig'], b['hash']))
    sig = a['sig']
    budget = cfg.get('shrink_budget', 250)
    if sig == 'hang':
        budget = 6     # every test costs a full watchdog period
    tests = [0]
    t_start = time.time()
    wall = cfg.get('shrink_wall', 150)

    seq_timeout = None
    if plan.get('sequence'):
        seq_timeout = cfg.get('exec_timeout', 120) * max(3, len(plan['sequence']) // 20)
        if len(plan['sequence']) > 8:
            budget = min(budget, 40)   # every test replays the whole history
    keys = cfg.get('shrink_keys')
    if plan.get('sequence'):
        keys = list(keys or shrinker.DEFAULT_KEYS) + ['sequence']

    def still_fails(p):
        tests[0] += 1
        if time.time() - t_start > wall:
            raise shrinker.Budget()
        return exec_plan(cfg, p, binary, timeout=seq_timeout)['sig'] == sig
    small = shrinker.minimise(plan, still_fails, budget, cfg.get('shrink_ints', []), keys)
    fin = exec_plan(cfg, small, binary, timeout=long_timeout if sig == 'hang' else seq_timeout)
    fin2 = exec_plan(cfg, small, binary, timeout=seq_timeout)
    if fin['sig'] != sig or fin2['sig'] != sig or fin['hash'] != fin2['hash']:
        small, fin = plan, a   # fall back to the unminimised plan
    small['expect'] = dict(signature=sig, trace_hash=fin['hash'], detail=fin['detail'][:2000],
                           shrink_tests=tests[0], binary=binary)
    d = os.path.join(VERIF, 'replays', prop)
    os.makedirs(d, exist_ok=True)
    safe = re.sub(r'[^A-Za-z0-9_.-]+', '_', sig)[:80]
    path = os.path.join(d, '%s-%d-%d.json' % (safe, seed, run))
    with open(path, 'w') as f:
        json.dump(small, f, indent=1)
    return ('violation', sig, path, fin['detail'])


def merge_counters(summaries):
    c, states, steps, events, runs = {}, set(), 0, 0, 0
    for s in summaries:
        for k, v in s.get('counters', {}).items():
            c[k] = c.get(k, 0) + v
        states.update(s.get('states', []))
        steps += s.get('steps', 0)
        events += s.get('events', 0)
        runs += s.get('runs', 0)
    return c, states, steps, events, runs


def do_replay(cfg, prop, path):
    plan = json.load(open(path))
    exp = plan.get('expect', {})
    binary = exp.get('binary') or cfg['binaries'][0]
    r = exec_plan(cfg, plan, binary, keep_events=True,
                  timeout=cfg.get('exec_timeout', 120) * max(3, len(plan['sequence']) // 20)
                  if plan.get('sequence') else None)
    log('replay: signature=%r trace_hash=%s' % (r['sig'], r['hash']))
    if r['detail']:
        log(r['detail'])
    log('event log: %s' % r.get('events_file'))
    if r['sig']:
        same = (r['sig'] == exp.get('signature'))
        log('expected signature %r: %s; expected trace hash %s: %s' % (
            exp.get('signature'), 'same' if same else 'DIFFERENT',
            exp.get('trace_hash'), 'same' if r['hash'] == exp.get('trace_hash') else 'DIFFERENT'))
        known, _ = load_known(prop)
        k = match_known(known, r['sig'])
        if k:
            log('KNOWN-FINDING: property=%s %s' % (prop, k.get('what', r['sig'])))
            return 0
        log('VIOLATION property=%s replay=%s' % (prop, path))
        return 1
    log('replay: no violation on the current tree')
    return 0


def main(argv):
    ap = argparse.ArgumentParser()
    ap.add_argument('id')
    ap.add_argument('--tier', default=os.environ.get('VERIF_TIER', 'quick'), choices=['quick', 'thorough'])
    ap.add_argument('--replay')
    ap.add_argument('--runs', type=int)
    ap.add_argument('--workers', type=int)
    ap.add_argument('--no-build', action='store_true')
    ap.add_argument('--no-evidence', action='store_true')
    ap.add_argument('--census', action='store_true', help='no gating/minimisation: histogram of raw violation signatures')
    ap.add_argument('--dump-hashes', help='write run->trace hash map to this file (determinism self-test)')
    args = ap.parse_args(argv)
    prop = args.id.upper()
    if prop not in CHECKS:
        log('unknown check', prop)
        return 2
    cfg = CHECKS[prop]
    seed = int(os.environ.get('VERIF_SEED', '20260921')) & ((1 << 62) - 1)
    t0 = time.time()
    os.makedirs(TMP, exist_ok=True)
    if not args.no_build and not build(cfg):
        return 2
    if args.replay:
        return do_replay(cfg, prop, args.replay)

    tier = args.tier
    tcfg = cfg[tier]
    known, fixed = load_known(prop)
    # every listed known finding is replayed first: it is announced on each
    # run while it still reproduces (and suppresses only its own signature)
    known_status = []
    for k in known:
        rp = k.get('replay')
        line = 'KNOWN-FINDING: property=%s %s' % (prop, k.get('what', k.get('signature')))
        if rp and os.path.exists(os.path.join(VERIF, rp)):
            plan = json.load(open(os.path.join(VERIF, rp)))
            binary = plan.get('expect', {}).get('binary') or cfg['binaries'][0]
            r = exec_plan(cfg, plan, binary)
            if r['sig'] == k.get('signature'):
                log(line + ' [signature %s; replay %s reproduces]' % (k['signature'], rp))
                known_status.append(dict(signature=k['signature'], reproduces=True))
            else:
                log('NOTE: known finding %s no longer reproduces from %s (got %r)' % (k.get('signature'), rp, r['sig']))
                known_status.append(dict(signature=k['signature'], reproduces=False))
        else:
            log(line + ' [signature %s]' % k.get('signature'))
            known_status.append(dict(signature=k.get('signature'), reproduces=None))
    all_results, all_viol, summaries, capped = {}, {}, [], False
    per_binary = []
    for bi, binary in enumerate(cfg['binaries']):
        nruns = args.runs or tcfg['runs']
        if not args.runs and 'runs_per_binary' in tcfg:
            nruns = tcfg['runs_per_binary'][bi]
        nworkers = args.workers or tcfg.get('workers', 16)
        pool = Pool(cfg, tier, seed, nruns, nworkers, tcfg.get('chunk', 20), tcfg.get('wall_cap', 900), binary)
        if args.census:
            pool.stop_after_sigs = 10 ** 9
        pool.run()
        capped = capped or pool.capped
        if pool.worker_errors:
            log('MACHINERY-FAILURE: worker thread error(s): %s' % pool.worker_errors[:3])
            return 2
        for r, x in pool.results.items():
            all_results[(binary, r)] = x
        for r, v in pool.violations.items():
            all_viol[(binary, r)] = v
        summaries += pool.summaries
        per_binary.append((binary, len(pool.results), time.time() - pool.t0))
        slow = sorted(pool.durations, reverse=True)[:5]
        if slow and slow[0][0] > 10:
            log('slowest runs: ' + ', '.join('run %d %.0fs' % (r, d) for d, r in slow))
    run_wall = time.time() - t0
    counters, states, steps, events, _ = merge_counters(summaries)
    if not all_results:
        log('MACHINERY-FAILURE: no run was executed')
        return 2

    if args.dump_hashes:
        with open(args.dump_hashes, 'w') as f:
            for (b, r) in sorted(all_results):
                f.write('%s %d %s\n' % (os.path.basename(b), r, all_results[(b, r)][0]))

    if args.census:
        hist = {}
        for (binary, r), v in all_viol.items():
            hist.setdefault(v['sig'], []).append(r)
        for sig, rs in sorted(hist.items(), key=lambda kv: -len(kv[1])):
            log('%6d  %s   (runs %s%s)' % (len(rs), sig, ' '.join(str(x) for x in sorted(rs)[:12]), ' ...' if len(rs) > 12 else ''))
        log('census: %d runs, %d violating' % (len(all_results), len(all_viol)))
        return 0
    # ---- violations: one representative (lowest run) per worker-reported signature
    by_sig, more_hangs = {}, []
    for (binary, r) in sorted(all_viol):
        v = all_viol[(binary, r)]
        if v['sig'] == 'hang' and 'hang' in by_sig:
            more_hangs.append((binary, r, v))
        by_sig.setdefault(v['sig'], (binary, r, v))
    exit_code = 0
    reported, known_hit = [], []
    nondet = []
    slow_notes = []
    seen_final = set()
    todo = sorted(by_sig.items(), key=lambda kv: kv[1][1])
    while todo:
        sig0, (binary, r, v) = todo.pop(0)
        if len(reported) >= cfg.get('max_reported', 8):
            break
        st, sig, path, info = process_violation(cfg, prop, tier, seed, r, v, binary)
        if st == 'slow':
            slow_notes.append(info)
            log('NOTE: ' + info)
            # the next watchdog kill of the batch, if any, may be a real hang
            if more_hangs and len(slow_notes) < 6:
                todo.insert(0, ('hang', more_hangs.pop(0)))
            continue
        if st == 'nondeterministic':
            nondet.append((r, sig, info))
            continue
        if sig in seen_final:
            continue
        seen_final.add(sig)
        k = match_known(known, sig)
        if k:
            known_hit.append((sig, k))
            log('(known finding %s met again in this batch: %s)' % (sig, path))
        else:
            reported.append((sig, path, info))
            log('--- violation (run %d, signature %s) ---' % (r, sig))
            log(info[:3000])
            log('VIOLATION property=%s replay=%s' % (prop, path))
            exit_code = 1
    if nondet and exit_code == 0:
        for r, sig, info in nondet:
            log('MACHINERY-FAILURE: run %d reported %r but did not reproduce deterministically: %s' % (r, sig, info))
        exit_code = 2

    # ---- evidence
    nruns_done = len(all_results)
    nontriv_hashes = set(h for (h, nt, st) in all_results.values() if nt and h != 'dead')
    all_hashes = set(h for (h, nt, st) in all_results.values())
    wall = time.time() - t0
    if not args.no_evidence:
        samples = []
        for r in tcfg.get('sample_runs', [0, 1]):
            try:
                p = gen_plan(cfg, tier, seed, r)
                txt = json.dumps(p)
                if len(txt) > 6000:
                    p = dict(p)
                    for kk in cfg.get('shrink_keys') or ['ops']:
                        if kk in p and isinstance(p[kk], list) and len(p[kk]) > 12:
                            p[kk] = p[kk][:12] + ['... %d more' % (len(p[kk]) - 12)]
                    txt = json.dumps(p)
                    if len(txt) > 12000:
                        p = txt[:12000] + '...'
                samples.append(p)
            except Exception as e:  # noqa
                samples.append('sample generation failed: %s' % e)
        faults = {k[6:]: v for k, v in counters.items() if k.startswith('fault.')}
        probes = {k[6:]: v for k, v in counters.items() if k.startswith('probe.')}
        other = {k: v for k, v in counters.items() if not k.startswith(('fault.', 'probe.'))}
        zero_probes = [p for p in cfg.get('expected_probes', []) if probes.get(p, 0) == 0 and faults.get(p, 0) == 0]
        for p in zero_probes:
            log('WARNING: reach probe %r stayed at zero in this batch' % p)
        ev = {
            'property_id': prop,
            'tier': tier,
            'seed': seed,
            'level': cfg.get('level', 'exploration'),
            'coverage': {
                'evaluations': nruns_done,
                'distinct_nontrivial': len(nontriv_hashes),
                'rule': cfg['rule'] + (' ' + cfg['rule_more'] if cfg.get('rule_more') else ''),
                'samples': samples,
                'distinct_event_logs': len(all_hashes),
                'distinct_abstract_states': len(states),
                'state_measure': cfg.get('state_measure', ''),
                'operations_or_scheduler_steps': steps,
                'events_logged': events,
                'runs_per_hour': int(nruns_done / max(run_wall, 1e-3) * 3600),
                'seeds_per_hour': int(nruns_done / max(run_wall, 1e-3) * 3600),
                'simulated_time': cfg.get('simulated_time', 'none: SymEngine has no clock or timers; progress is counted in operations / scheduler steps'),
                'faults_fired': faults,
                'reach_probes': probes,
                'other_counters': other,
                'probes_at_zero': zero_probes,
                'components': cfg['components'],
                'binaries': [dict(binary=b, runs=n, wall_s=round(w, 1)) for b, n, w in per_binary],
                'stopped_by_wall_cap': capped,
                'violations_reported': [dict(signature=s, replay=p) for s, p, _ in reported],
                'known_findings_hit': [s for s, _ in known_hit],
                'slow_runs_not_hung': slow_notes,
                'known_findings_replayed': known_status,
                'fixed_entries': [e.get('entry') for e in fixed],
                'exhaustive': False,
            },
            'assumptions': cfg['assumptions'],
            'wall_s': round(wall, 2),
            'violations': len(reported),
        }
        os.makedirs(os.path.join(VERIF, 'evidence'), exist_ok=True)
        with open(os.path.join(VERIF, 'evidence', prop + '.json'), 'w') as f:
            json.dump(ev, f, indent=1)
    log('%s %s: %d runs, %d distinct non-trivial, %d abstract states, %d steps, %.1fs, exit %d' % (
        prop, tier, nruns_done, len(nontriv_hashes), len(states), steps, wall, exit_code))
    return exit_code


if __name__ == '__main__':
    sys.exit(main(sys.argv[1:]))
