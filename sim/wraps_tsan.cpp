// Link-time yield points for the ThreadSanitizer build: gcc emits a call to
// __tsan_atomicNN_* for every std::atomic access in instrumented code, and
// -Wl,--wrap= routes each of them through here (zero source changes: code
// that touches an atomic differently is still intercepted). Also wraps the
// C++ ABI guards of function-local statics so that a thread reaching a static
// being initialised by a parked thread is descheduled instead of stopping
// the world. NOT compiled with -fsanitize=thread.
#include "sched.h"
#include <cstdint>

using simsched::K_ATOMIC32_RMW;
using simsched::K_ATOMIC64;
using simsched::K_GUARD;

extern "C" {
typedef int morder;
typedef unsigned char a8;
typedef int a32;
typedef long long a64;

#define WRAP_RMW(bits, name, kind)                                              \
    a##bits __real___tsan_atomic##bits##_##name(volatile a##bits *a, a##bits v, \
                                                morder mo);                    \
    a##bits __wrap___tsan_atomic##bits##_##name(volatile a##bits *a, a##bits v, \
                                                morder mo)                     \
    {                                                                          \
        simsched::yield(kind, (const void *)a);                                \
        return __real___tsan_atomic##bits##_##name(a, v, mo);                  \
    }
WRAP_RMW(32, fetch_add, K_ATOMIC32_RMW)
WRAP_RMW(32, fetch_sub, K_ATOMIC32_RMW)
WRAP_RMW(32, exchange, K_ATOMIC32_RMW)
WRAP_RMW(64, fetch_add, K_ATOMIC64)
WRAP_RMW(64, fetch_sub, K_ATOMIC64)
WRAP_RMW(64, exchange, K_ATOMIC64)

#define WRAP_LOAD(bits, kind)                                                  \
    a##bits __real___tsan_atomic##bits##_load(const volatile a##bits *a,       \
                                              morder mo);                      \
    a##bits __wrap___tsan_atomic##bits##_load(const volatile a##bits *a,       \
                                              morder mo)                       \
    {                                                                          \
        simsched::yield(kind, (const void *)a);                                \
        return __real___tsan_atomic##bits##_load(a, mo);                       \
    }
WRAP_LOAD(8, K_GUARD)
WRAP_LOAD(32, K_ATOMIC32_RMW)
WRAP_LOAD(64, K_ATOMIC64)

#define WRAP_STORE(bits, kind)                                                 \
    void __real___tsan_atomic##bits##_store(volatile a##bits *a, a##bits v,    \
                                            morder mo);                        \
    void __wrap___tsan_atomic##bits##_store(volatile a##bits *a, a##bits v,    \
                                            morder mo)                         \
    {                                                                          \
        simsched::yield(kind, (const void *)a);                                \
        __real___tsan_atomic##bits##_store(a, v, mo);                          \
    }
WRAP_STORE(32, K_ATOMIC32_RMW)
WRAP_STORE(64, K_ATOMIC64)

#define WRAP_CAS(bits, name, kind)                                             \
    int __real___tsan_atomic##bits##_compare_exchange_##name(                  \
        volatile a##bits *a, a##bits *c, a##bits v, morder mo, morder fmo);    \
    int __wrap___tsan_atomic##bits##_compare_exchange_##name(                  \
        volatile a##bits *a, a##bits *c, a##bits v, morder mo, morder fmo)     \
    {                                                                          \
        simsched::yield(kind, (const void *)a);                                \
        return __real___tsan_atomic##bits##_compare_exchange_##name(a, c, v,   \
                                                                    mo, fmo);  \
    }
WRAP_CAS(32, strong, K_ATOMIC32_RMW)
WRAP_CAS(32, weak, K_ATOMIC32_RMW)
WRAP_CAS(64, strong, K_ATOMIC64)
WRAP_CAS(64, weak, K_ATOMIC64)

// ---- function-local static guards (Itanium C++ ABI)
int __real___cxa_guard_acquire(uint64_t *g);
void __real___cxa_guard_release(uint64_t *g);
void __real___cxa_guard_abort(uint64_t *g);

int __wrap___cxa_guard_acquire(uint64_t *g)
{
    if (simsched::active_worker()) {
        bool complete = *(volatile unsigned char *)g != 0;
        simsched::guard_before_acquire(g, complete);
    }
    int r = __real___cxa_guard_acquire(g);
    if (r) {
        simsched::guard_acquired(g);
        // a second yield point right after taking the guard: lets another
        // thread run while this static is half-initialised
        simsched::yield(K_GUARD, g);
    }
    return r;
}
void __wrap___cxa_guard_release(uint64_t *g)
{
    __real___cxa_guard_release(g);
    simsched::guard_released(g);
}
void __wrap___cxa_guard_abort(uint64_t *g)
{
    __real___cxa_guard_abort(g);
    simsched::guard_released(g);
}
}
