# Harness binaries. Libraries are built by bin/build-lib from /repo's working
# tree; every harness depends on its library archive and (through depfiles)
# on the /repo headers it includes, so a change in /repo rebuilds it.
REPO ?= /repo
B := build
CXX := g++
COMMON := -g -fno-omit-frame-pointer -DSYMENGINE_VERIF_SIM -Wall -Wno-unused-function -Wno-deprecated-declarations
ASAN_FLAGS := -O1 $(COMMON) -fsanitize=address,undefined -fno-sanitize-recover=undefined -D_GLIBCXX_SANITIZE_VECTOR
TSAN_FLAGS := -O1 $(COMMON) -fsanitize=thread
inc = -I$(REPO) -I$(B)/$(1) -I$(REPO)/symengine/utilities/cereal/include
SIMHDR := $(wildcard sim/*.h)

ASAN_CHECKS := c33 c25 c13 c18 c19 c20 c23 c32
ASAN_BINS := $(patsubst %,$(B)/bin/%,$(ASAN_CHECKS))
SIM_SRC_c13 := sim/alloc_seam.cpp
SIM_SRC_c33 := sim/alloc_seam.cpp
SIM_SRC_c32 := sim/rand_seam.cpp sim/alloc_seam.cpp
SIM_SRC_c18 := sim/alloc_seam.cpp
SIM_SRC_c19 := sim/alloc_seam.cpp
SIM_SRC_c20 := sim/alloc_seam.cpp
SIM_SRC_c23 := sim/rand_seam.cpp
LDFLAGS_c23 := -Wl,--wrap=rand -Wl,--wrap=__gmpz_urandomm
LDFLAGS_c32 := -Wl,--wrap=rand -Wl,--wrap=__gmpz_urandomm

.PHONY: all asan c41
all: asan c41
asan: $(ASAN_BINS)

# pattern: checks/cNN_*.cpp -> build/bin/cNN (asan variant)
define ASAN_RULE
$(B)/bin/$(1): $$(wildcard checks/$(1)_*.cpp) $(SIMHDR) $(B)/asan/symengine/libsymengine.a $$(wildcard sim/*.cpp)
	@mkdir -p $(B)/bin $(B)/dep
	$(CXX) $(ASAN_FLAGS) $(call inc,asan) -MMD -MF $(B)/dep/$(1).d -o $$@ $$(wildcard checks/$(1)_*.cpp) $$(SIM_SRC_$(1)) $(B)/asan/symengine/libsymengine.a -lgmp $$(LDFLAGS_$(1))
endef
$(foreach c,$(ASAN_CHECKS),$(eval $(call ASAN_RULE,$(c))))

-include $(wildcard $(B)/dep/*.d)

# ---- C41: thread-safe build under the deterministic scheduler ---------------
PLAIN_FLAGS := -O1 -g -fno-omit-frame-pointer -Wall
TSAN_WRAPS := __tsan_atomic32_fetch_add __tsan_atomic32_fetch_sub __tsan_atomic32_exchange \
  __tsan_atomic64_fetch_add __tsan_atomic64_fetch_sub __tsan_atomic64_exchange \
  __tsan_atomic8_load __tsan_atomic32_load __tsan_atomic64_load __tsan_atomic32_store __tsan_atomic64_store \
  __tsan_atomic32_compare_exchange_strong __tsan_atomic32_compare_exchange_weak \
  __tsan_atomic64_compare_exchange_strong __tsan_atomic64_compare_exchange_weak \
  __cxa_guard_acquire __cxa_guard_release __cxa_guard_abort
comma := ,
WRAPFLAGS := $(foreach s,$(TSAN_WRAPS),-Wl$(comma)--wrap=$(s))

c41: $(B)/bin/c41_tsan

$(B)/obj/sched.o: sim/sched.cpp sim/sched.h sim/rng.h
	@mkdir -p $(B)/obj
	$(CXX) $(PLAIN_FLAGS) -c -o $@ sim/sched.cpp
$(B)/obj/wraps_tsan.o: sim/wraps_tsan.cpp sim/sched.h
	@mkdir -p $(B)/obj
	$(CXX) $(PLAIN_FLAGS) -c -o $@ sim/wraps_tsan.cpp
SYNC_WRAPS := -Wl,--wrap=pthread_mutex_lock -Wl,--wrap=pthread_mutex_unlock -Wl,--wrap=pthread_rwlock_rdlock -Wl,--wrap=pthread_rwlock_wrlock -Wl,--wrap=pthread_rwlock_unlock -Wl,--wrap=pthread_once
$(B)/obj/wraps_sync.o: sim/wraps_sync.cpp sim/sched.h
	@mkdir -p $(B)/obj
	$(CXX) $(PLAIN_FLAGS) -c -o $@ sim/wraps_sync.cpp
$(B)/bin/c41_tsan: checks/c41_threads.cpp $(SIMHDR) $(B)/obj/sched.o $(B)/obj/wraps_tsan.o $(B)/obj/wraps_sync.o $(B)/tsan_ts/symengine/libsymengine.a
	@mkdir -p $(B)/bin $(B)/dep
	$(CXX) $(TSAN_FLAGS) $(call inc,tsan_ts) -MMD -MF $(B)/dep/c41_tsan.d -o $@ checks/c41_threads.cpp $(B)/obj/sched.o $(B)/obj/wraps_tsan.o $(B)/obj/wraps_sync.o $(B)/tsan_ts/symengine/libsymengine.a -lgmp -lpthread $(WRAPFLAGS) $(SYNC_WRAPS)

$(B)/obj/wraps_guard.o: sim/wraps_guard.cpp sim/sched.h
	@mkdir -p $(B)/obj
	$(CXX) $(PLAIN_FLAGS) -c -o $@ sim/wraps_guard.cpp
GUARD_WRAPS := -Wl,--wrap=__cxa_guard_acquire -Wl,--wrap=__cxa_guard_release -Wl,--wrap=__cxa_guard_abort
$(B)/bin/c41_asan: checks/c41_threads.cpp $(SIMHDR) $(B)/obj/sched.o $(B)/obj/wraps_guard.o $(B)/obj/wraps_sync.o $(B)/asan_ts/symengine/libsymengine.a
	@mkdir -p $(B)/bin $(B)/dep
	$(CXX) $(ASAN_FLAGS) $(call inc,asan_ts) -MMD -MF $(B)/dep/c41_asan.d -o $@ checks/c41_threads.cpp $(B)/obj/sched.o $(B)/obj/wraps_guard.o $(B)/obj/wraps_sync.o $(B)/asan_ts/symengine/libsymengine.a -lgmp -lpthread $(GUARD_WRAPS) $(SYNC_WRAPS)
