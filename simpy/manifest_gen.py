#!/usr/bin/env python3
"""Regenerate /verif/MANIFEST.json from simpy/checks.py and the tables below.
Run after claiming / un-claiming a property:  python3 simpy/manifest_gen.py"""
import json, os, sys
VERIF = os.path.abspath(os.path.join(os.path.dirname(os.path.abspath(__file__)), '..'))
sys.path.insert(0, os.path.join(VERIF, 'simpy'))
from checks import CHECKS  # noqa

NA = {
 'C01': 'pure relation between two deterministic functions (__eq__, __hash__) of the argument values; the lazy hash_ cache only changes when the value is computed, not what it is (its thread-safety is C41). No schedule, history, fault or environment seam.',
 'C02': 'order axioms of __cmp__ over pairs/triples of immutable values: a pure function of its inputs.',
 'C03': 'programs over immutable values are expression DAGs, i.e. inputs; canonicity of a result is a function of the argument values. No state, schedule or fault.',
 'C04': 'permutation / bracketing invariance of pure constructors.',
 'C05': 'pure arithmetic on number values.',
 'C06': 'finite pair table of a pure function: exhaustive enumeration, not simulation.',
 'C07': 'value preservation of pure rewrites of immutable expressions.',
 'C08': 'pure constructors; the only impurity (primepi through the global sieve) is exercised as a sieve client inside C33/C32, which is not a claim on C08.',
 'C09': 'expand is a pure function of the input expression.',
 'C10': 'the differentiation cache is a per-call visitor member selected by an argument; nothing survives the call.',
 'C11': 'the subs cache lives and dies inside one call; cache on/off is an argument. Pure.',
 'C12': 'pure numeric function of the tree (its static dispatch table is covered by C41 static-initialisation interleavings).',
 'C14': 'pure function of (expression, inputs, opt level, CSE flag) in an LLVM build configuration; comparing configurations is differential testing. No schedule, history or fault in the statement.',
 'C15': 'pure printer output judged by an external compiler; nothing to schedule or fail.',
 'C16': 'composition of two pure functions (print, parse).',
 'C17': 'pure function of the input string (parser reuse is C18).',
 'C21': 'pure arithmetic on value-type polynomials.',
 'C22': 'pure arithmetic on value-type polynomials.',
 'C24': 'pure linear algebra on values; in-place row operations are single calls with no shared state.',
 'C26': 'pure functions of immutable matrix-expression trees.',
 'C27': 'pure set algebra on immutable values.',
 'C28': 'pure boolean simplification.',
 'C29': 'pure function on pairs of numbers.',
 'C30': 'pure (fresh Dummy indices affect names, not solution sets).',
 'C31': 'pure function of (f, x, n); the step_list static cache is noted in DESIGN.md but the property does not quantify over histories.',
 'C34': 'pure function of (expression, assumption set).',
 'C35': 'refine() and simplify() are pure functions of (expression, assumption set) on immutable trees: no state survives a call, nothing is scheduled, timed, read, written or retried, and no fault can be injected short of allocation failure, about which the property says nothing. The quantifier is over inputs only, so deterministic simulation has nothing to decide; input generation alone would be property-based testing, a different technique.',
 'C36': 'the rewriting transformations (as_numer_denom, as_real_imag, rewrite_as_exp/sin/cos, conjugate, trig_to_sqrt) are pure functions of an immutable expression; value preservation is a statement about inputs and evaluation points only. No history, schedule, clock, I/O or shared mutable state is involved, so there is no seam for a simulator to own.',
 'C37': 'pure function of the expression list (fresh symbols chosen relative to the input, not global state).',
 'C38': 'generate_fdiff_weights_vector is a pure function of (grid, order, centre) over exact arithmetic with no cache or global state; the quantifier ranges over inputs only. Nothing to schedule or fault.',
 'C39': 'free_symbols, has_symbol, atoms, coeff and the other structural queries are read-only walks over an immutable tree that keep no state between calls (the visitors are constructed per call); the property quantifies over inputs only. No schedule, history, clock or fault seam (concurrent read-only walks over shared trees are covered by C41).',
 'C40': 'quantifies over programs on valid arguments under sanitizers; with immutable values a program is an input, and the statement has no schedule, history or fault (it does not promise exception safety under allocation failure). Sanitizer fuzzing is a different family; all simulated runs of the claimed checks do execute under ASan/UBSan/TSan.',
 'C42': 'equivalence of two call paths on the same argument values and deterministic exception translation; no schedule, clock, fault or seam.',
 'C43': 'quantifies over build configurations; comparing builds is differential / translation validation.',
 'C44': 'pure functions of the expression.',
 'C45': 'pure numeric function in another build configuration (MPC not installed).',
 'C46': 'pure function of the matrix.',
}

LEVEL = {
 'C13': ('exploration', 'Seeded search over histories of init / re-init / call / move on long-lived LambdaRealDoubleVisitor and LambdaComplexDoubleVisitor objects (interleaved steps of 1-3 objects, failing inits included), each call compared bit-for-bit with a fresh evaluator and, at well-conditioned points, with the CSE-flipped twin and an independent reference evaluator, under ASan/UBSan. Sampling of bounded histories: evidence, not proof; right level because the property quantifies over re-initialisation histories of a stateful object.', '4 (C13)'),
 'C18': ('exploration', 'Seeded search over histories of inputs fed to one long-lived Parser / SbmlParser (valid grammar-generated strings with attached input faults: EOF, NUL, flipped byte, duplicated/deleted span, splice, stray parenthesis; convert_xor toggled; failing and succeeding inputs alternating), every outcome compared with a fresh parser and required to be an expression or a SymEngineException, under ASan/UBSan. Decides the reuse clause by sampling and contributes fault-shaped inputs to the safety clause; it is not coverage-guided fuzzing of arbitrary byte strings.', '4 (C18)'),
 'C19': ('exploration', 'Seeded search over allocator address-reuse policies (immediate LIFO, delayed FIFO, random, system) and stream chunkings while expression DAGs over every serialisable class are dumped and reloaded (string API and archive templates, DenseMatrix too); oracle eq + str + hash + double bit patterns + sharing restored. The allocator seam is what makes address-keyed sharing bugs reachable (ASan quarantine hides them). Sampling, not proof.', '4 (C19)'),
 'C20': ('fault_enumeration', 'Storage-fault injection between dumps and loads: bit flips, byte overwrites, torn writes, lost and misdirected sectors, spliced dumps, and field-targeted damage on the write boundaries recorded by the stream seam (counts, type codes, first-seen flags, sharing keys), loaded under a memory budget; outcome must be an expression that survives str/hash/eq/cmp/eval or a SymEngineException; ASan/UBSan. The space of mutations of valid dumps is sampled, not enumerated exhaustively.', '4 (C20)'),
 'C23': ('exploration', 'Seeded search over (a) factorisations replayed under many rand() seed lists and under forced outcomes of individual GMP draws (the randomness seam owns both std::rand() and mpz_urandomm), judged by an independent GF(p)[x] oracle (factors monic, irreducible, distinct, multiply back, identical under every seed list and entry point, bounded number of draws), and (b) histories of in-place and value-returning arithmetic (+=, -=, *=, /=, %=, negate, gf_div, shifts, powers, monic, gcd, lcm, diff, eval, square-free list/part, compose_mod, pow_mod, Frobenius base/map, distinct-degree factorisation) on a pool of mutable GaloisFieldDict objects over several fields per run, every pool member compared with the harness model after every step. Sampling, not proof.', '4 (C23) and 9'),
 'C25': ('exploration', 'Seeded search over histories of set/get/from_coo and every implemented CSR operation on a pool of CSR matrices kept in lock step with dense references; independent canonical-format check of the raw arrays plus element-wise comparison after every step; ASan/UBSan. No schedule or fault exists for this property: the simulator contributes the seeded history, the reference model, minimisation and replay.', '4 (C25)'),
 'C32': ('exploration', 'Seeded interleaving of calls of every function of the property with perturbations of the process-global prime sieve, each call replayed under several rand() seed lists and forced GMP draw outcomes; brute-force oracles from the definitions (raw GMP / __int128 arithmetic in the harness), identical results across seeds and sieve states. The clauses that meet a seam (randomised Pollard / Tonelli-Shanks paths, sieve clients) are decided by the seams; the pure functions (gcd ... probab_prime_p) ride along in the same workload against their definitions, which is plain input sampling and is said so. Large arguments (n >= 2^64 for the factoring methods, prime-power moduli up to 2^40 for modular roots) are judged by defining identities and the group-structure root count.', '4 (C32) and 9'),
 'C33': ('exploration', 'Seeded search over interleavings of logical clients of the process-global prime sieve (iterators, generate_primes callers, clear / set_clear / set_sieve_size, library clients), each step checked against an independent prime table and a per-iterator reference model, under ASan/UBSan with libstdc++ container annotations. Sampling of bounded histories (<=64 steps, limits <=3e6).', '4 (C33)'),
 'C41': ('exploration', 'Deterministic schedule search: real threads run the property\'s operations on shared untouched expressions while an uninstrumented futex scheduler decides, from the seed, who runs next at every atomic access of the thread-safe library (link-time wrap of __tsan_atomic* and __cxa_guard_*; source hooks in the ASan build). Oracles: ThreadSanitizer happens-before reports over the serialised execution, per-thread results equal to a sequential reference, reference-count conservation, unique Dummy indices, deadlock / step-cap liveness; same plans also under ASan/UBSan. Sampling of SC interleavings, not proof.', '4 (C41)'),
}
NOTE = {
 'C13': 'Trusted: libm, the harness reference evaluator (sim/refeval.h), ASan/UBSan. The value oracle is applied only where all subexpressions are finite and the result is stable under 1e-9 perturbations (tolerance 1e-6); the fresh-evaluator oracle is exact. State after a failed init is not judged. Inputs named like cse() temporaries (x0, x1, ...), used or unused by the outputs, are part of the workload. Known finding: CSE changes atan2(e, e) results (root cause in atan2 autoevaluation, pinned by the test suite). LLVM evaluators not covered.',
 'C18': 'Trusted: ASan/UBSan. Inputs that could legitimately take very long or exhaust memory (towers of powers; special functions of literals above 4 digits or with exponents, nested/repeated special functions such as gamma(gamma(18)); zeta/dirichlet_eta/polygamma above 99) are filtered by a conservative syntactic predicate and not run. Hang = still in the same step after 4 watchdog periods (6 min) alone in a fresh process; slower-than-watchdog runs that finish are notes. Known findings (known_findings.jsonl): lowergamma(n, x) / uppergamma(n, x) recurse n deep - stack overflow from a 20-byte input; that input family (either name with a literal of >= 4 digits inside its argument list) is replayed from known/C18 and left out of random exploration. Only mutations of grammar-generated strings up to 2500 bytes; arbitrary byte strings (fuzzing) not claimed. The allocator seam decides when a freed address is reused (per-run policy); the free functions parse / parse_sbml get a constant map per call (same names, other values).',
 'C19': 'Trusted: eq/str/hash as equality oracles, ASan. Field-completeness of every save/load pair is sampled, not enumerated (all classes with a save_basic overload are in the generator, including URatPoly, PrimePi, Primorial); integers around the word-size boundaries (2^31, 2^32, 2^63, 2^64, 10^18, 10^19) are generated on purpose; dumps that fail half way (an unserialisable node after serialisable ones) are interleaved with ordinary round trips on the same thread. NaN-valued doubles skip the eq oracle; generator avoids inputs on which constructors (not serialization) misbehave (listed in DESIGN.md).',
 'C20': 'Trusted: ASan/UBSan, the memory budget (64 MB per request / 512 MB live -> std::bad_alloc). Only mutations of valid dumps are explored (incl. integer strings replaced by adversarial numerals: "-", "", "0" as a denominator, "+1", "0x10", 19-20 digit boundary values ...); post-load use is str, hash, eq, __cmp__, eval_double as the property lists. DenseMatrix::loads is not covered.',
 'C23': 'Trusted: the harness GF(p)[x] arithmetic and Rabin test, ASan/UBSan. p <= 199, degree <= 12 for factorisation (p = 2: <= 8), <= 24 for arithmetic histories (a larger result is checked, then cut). Forced draws are boundary values (0, 1, 2, n/2, n-1) at chosen draw indices or for a bounded prefix (<= 120 draws), after which the seeded generator continues: constant streams without end are not injected, because retry loops legitimately need fresh randomness. gf_eval is called with points in [0, p) only; division of a constant by a non-zero multiple of p is not called (no inverse exists).',
 'C25': 'Trusted: DenseMatrix operations as reference, eq/expand for value comparison, ASan/UBSan. Matrices up to 8x8, entries exact numbers and monomials, and in one plan in six (floatmode: no entry arithmetic issued, so the exact oracle stays sound) tiny real/complex doubles whose products and norms underflow; arithmetic on floating entries is not explored; a pool member whose entries grow beyond 40 expression nodes is checked and then replaced by small values on the same sparsity pattern (bounded run time). csr_matmat_pass2 results compared by value only (it neither sorts nor shrinks, as its SciPy original). Result objects of binop / elementwise product may already hold an earlier result of the same shape.',
 'C32': 'Trusted: raw GMP arithmetic (mpz_add/mul/divisible, mpq_*) and __int128 brute force in the harness, ASan/UBSan. Bounds: n <= 1e6 plus 40-bit semiprimes and n = q*r >= 2^64 with a small prime q for factoring; moduli <= 4000, primes = 1 (mod 8) in [10000, 34000] (Tonelli-Shanks path), and prime powers <= 2^40 with gcd(a, p) = 1 for the group-structure oracle; pure functions on arguments up to 2e12 (fibonacci/lucas <= 400, factorial <= 200, bernoulli <= 44). Which non-trivial divisor / which root / which primitive root of a composite modulus is returned is unspecified: only validity is required; Pollard methods may fail, never lie. Roots are compared as residues (negative representatives accepted). The allocator seam decides when a freed address is reused (per-run policy).',
 'C33': 'Trusted: the harness sieve of Eratosthenes as reference, ASan/UBSan reporting. Bounds: sieve sizes {1,2,3,4,8,16,32,64} KB, limits <= 3e6, <=5 live iterators. A bounded iterator is allowed to return cached primes beyond its limit (callers test p <= limit). An allocation may be made to fail inside generate_primes / next_prime (std::bad_alloc is then an accepted outcome of that call; later results of every client are still judged).',
 'C41': 'Trusted: ThreadSanitizer (bounded per-location history), the uninstrumented scheduler. Sequentially consistent interleavings at atomic-access granularity only (no hardware weak-memory effects); WITH_SYMENGINE_RCP=yes; operations outside the property list (sieve, series) not run concurrently. Besides shared expressions the workload has sibling pairs (same tree, one leaf changed, so eq/__cmp__ walk both to the end) and hand-off objects owned by the worker threads alone and released through reset / assignment / destruction (each must be destroyed exactly once). Blocking locks (pthread mutex / rwlock / once, hence std::mutex, std::shared_mutex, std::call_once) are taken through non-blocking wrappers and a spinning thread is descheduled after 256 yields at one address, so correctly synchronised code is neither stopped nor reported (mutants/C41/benign_mutex_must_stay_silent.patch must give exit 0).',
}
TECH = {
 'C13': 'deterministic simulation: seeded history on stateful evaluator objects (re-init, repeated call points, moves) + allocator seam (address-reuse policies) + fresh-object / reference-evaluator oracles, ASan/UBSan, ddmin replay',
 'C18': 'deterministic simulation: seeded input history on reused parser objects and the free functions with injected input faults + allocator seam (address-reuse policies) + fresh-parser oracle, ASan/UBSan, ddmin and history-aware replay',
 'C19': 'deterministic simulation: allocator seam (address-reuse policies) + stream seam around dumps/loads, round-trip oracle, ddmin replay',
 'C20': 'deterministic simulation with storage fault injection (bit/byte/torn/lost/misdirected/field-targeted) under a memory budget, ASan/UBSan, ddmin replay',
 'C23': 'deterministic simulation: randomness seam (link-time wrap of rand() and mpz_urandomm: seed lists + forced draw outcomes), seeded histories on mutable polynomial objects with a reference model, independent GF(p) oracle, draw-budget liveness, history-aware replay',
 'C25': 'deterministic simulation: seeded operation history on mutable CSR matrices in lock step with a dense reference model, ASan/UBSan, ddmin replay',
 'C32': 'deterministic simulation: randomness seam (rand() + forced mpz_urandomm draws), perturbation of the process-global sieve between calls, allocator seam (address reuse), brute-force / defining-identity oracles, seed and state independence, history-aware replay',
 'C33': 'deterministic simulation: seeded interleaving of cooperative clients over the global sieve + reference model, allocation-failure injection inside sieve operations, ASan/UBSan, ddmin replay',
 'C41': 'deterministic simulation: seeded scheduler over real threads (parked/released at intercepted atomic accesses, static guards and blocking locks) + ThreadSanitizer + sequential reference + conservation (refcounts, exactly-once destruction), replay by plan',
}


def main():
    checks = []
    for pid in sorted(CHECKS):
        if pid not in LEVEL:
            continue
        cat, text, ref = LEVEL[pid]
        checks.append({
            'property_id': pid,
            'quick_cmd': 'bin/check %s --tier quick' % pid,
            'thorough_cmd': 'bin/check %s --tier thorough' % pid,
            'evidence_file': 'evidence/%s.json' % pid,
            'replay_cmd_template': 'bin/check %s --replay {path}' % pid,
            'engine': 'sim',
            'level_claimed': {'category': cat, 'text': text, 'design_ref': 'DESIGN.md section ' + ref},
            'level_note': NOTE[pid],
            'technique': TECH[pid],
        })
    claimed = set(c['property_id'] for c in checks)
    na = []
    props = [json.loads(l)['id'] for l in open(os.path.join(VERIF, 'properties.jsonl'))]
    for pid in props:
        if pid in claimed:
            continue
        reason = NA.get(pid) or 'claimable by the technique (see DESIGN.md) but its check is not yet built/validated in this tree; not claimed until it is.'
        na.append({'property_id': pid, 'reason': reason})
    hooks_commits = []
    hp = os.path.join(VERIF, 'hooks_commits.txt')
    if os.path.exists(hp):
        hooks_commits = [l.split()[0] for l in open(hp) if l.strip() and not l.startswith('#')]
    m = {
        'version': 1,
        'setup_cmd': 'bin/setup',
        'hooks': {
            'guard': 'SYMENGINE_VERIF_SIM',
            'enable': 'bin/build-lib <variant> configures /repo out-of-tree into /verif/build/<variant> with -DSYMENGINE_VERIF_SIM in CMAKE_CXX_FLAGS (plus sanitizer flags); hooks are add-only yield points for the simulator scheduler',
            'baseline_off_cmd': 'bin/baseline-off',
            'source_commits': hooks_commits,
            'add_only': True,
        },
        'engines': [{
            'name': 'sim',
            'path': 'sim/ simpy/ checks/ bin/',
            'serves_properties': sorted(claimed),
            'kind_free_text': 'hand-written deterministic simulator: seeded plans (xoshiro256** from VERIF_SEED), cooperative clients / parked real threads, environment seams (rand, allocator, byte streams, storage faults), reference-model oracles, sanitizer builds, ddmin minimisation, replay files',
        }],
        'checks': checks,
        'not_applicable': na,
        'notes': 'Technique family: deterministic simulation with fault injection. See DESIGN.md for the applicability rule; known_findings.jsonl lists fixed / known defects.',
    }
    with open(os.path.join(VERIF, 'MANIFEST.json'), 'w') as f:
        json.dump(m, f, indent=1)
    print('MANIFEST.json: %d claimed, %d not applicable' % (len(checks), len(na)))


if __name__ == '__main__':
    main()
