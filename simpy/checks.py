"""Per-check configuration of the orchestrator."""

REAL_COMMON = ['libsymengine.a built from /repo working tree (all SymEngine code)', 'GMP', 'libstdc++',
               'cereal (bundled)']

CHECKS = {}

CHECKS['C33'] = dict(
    variants=['asan'],
    targets=['build/bin/c33'],
    binaries=['build/bin/c33'],
    quick=dict(runs=2400, workers=16, chunk=10, wall_cap=600),
    thorough=dict(runs=40000, workers=16, chunk=10, wall_cap=3000),
    run_timeout=120,
    shrink_ints=['n', 'limit'],
    expected_probes=['iterator_stepped_after_cache_cleared', 'gen_crosses_segment_boundary',
                     'size_changed_with_warm_cache', 'bounded_iterator_exhausted'],
    rule=('one run = a seeded interleaving (4-64 steps) of 1-5 iterator clients, generate_primes callers, '
          'clear/set_clear/set_sieve_size and library clients (primepi, prime_factors, '
          'prime_factor_multiplicities, factor_trial_division, mobius) on the process-global sieve, checked '
          'step by step against an independent prime table and a per-iterator model; limits biased to segment '
          'boundaries of the sieve sizes in play. A run is non-trivial if an iterator was stepped after the '
          'shared cache was cleared below its index, or a generate_primes crossed a segment boundary, or the '
          'sieve size changed during the run; distinct = distinct event-log hash.'),
    state_measure='(sieve size, clear flag, log4 bucket of cached primes [model], live iterators, stale iterator present, log4 bucket of max iterator index)',
    components=dict(real=REAL_COMMON + ['Sieve, Sieve::iterator, ntheory sieve clients'],
                    stub=['order in which logical clients touch the global sieve (seeded plan)',
                          'reference prime table (harness sieve of Eratosthenes)']),
    assumptions=['ASan/UBSan with libstdc++ vector annotations report every out-of-bounds access executed',
                 'limits <= 3e6 (thorough) / 6e5 (quick); sieve sizes {1,2,3,4,8,16,32,64}; size 0 excluded as invalid',
                 'a bounded iterator may return cached primes beyond its limit or limit+1 once exhausted (callers test p <= limit)',
                 'sampling, not proof'],
)
