// Deterministic scheduler for real threads (C41).
//
// Workers are real std::threads; exactly one of them holds the run token at
// any time. At every yield point (atomic access of the library, intercepted at
// link time; static-initialisation guards; source hooks) the token holder asks
// the scheduler whether to go on or to hand the token to another runnable
// thread; every such decision comes from the run's seeded PRNG or from the
// explicit switch list of a replay plan.
//
// This translation unit is compiled WITHOUT -fsanitize=thread and hands the
// token over with raw futex system calls, so ThreadSanitizer sees no
// happens-before edge made by the scheduler: over the fully serialised,
// seed-determined execution it still reports every pair of conflicting
// accesses that the library's own synchronisation does not order.
#pragma once
#include <cstdint>
#include <string>
#include <vector>

namespace simsched
{

enum Kind {
    K_ATOMIC32_RMW = 0, // refcount_ increments / decrements
    K_ATOMIC64 = 1,     // hash_ load / store, Dummy counter
    K_GUARD = 2,        // function-local static initialisation
    K_HOOK = 3,         // source hook (non-TSan builds)
    K_OP = 4,           // between two workload operations
    K_NKINDS = 5
};

struct Config {
    uint64_t seed = 1;
    // a switch is taken at a yield of kind k with probability num[k] / den
    unsigned den = 64;
    unsigned num[K_NKINDS] = {1, 4, 8, 1, 16};
    // explicit mode (replay / minimisation): switch exactly at these yields
    bool explicit_mode = false;
    std::vector<std::pair<uint64_t, int>> switches; // (yield index, to thread)
    // PCT-like mode: priorities, d change points
    bool pct_mode = false;
    std::vector<uint64_t> pct_points; // yield indices at which the running
                                      // thread's priority drops below all
    uint64_t step_cap = 2000000000ULL; // liveness net; the parent's watchdog is the tighter one
};

struct Stats {
    uint64_t yields = 0, switches = 0, guard_blocks = 0, guard_contended = 0;
    uint64_t lock_blocks = 0;   // a thread found a mutex / rwlock / once held by a parked thread
    uint64_t spin_switches = 0; // forced switches away from a thread spinning on one address
    uint64_t yields_by_kind[K_NKINDS] = {0, 0, 0, 0, 0};
    uint64_t switch_hash = 1469598103934665603ULL; // over (yield idx, to)
    bool deadlock = false, step_cap_hit = false;
};

// ---- main thread API
void begin(int nthreads, const Config &cfg);
// blocks until every worker has parked in worker_enter(), then runs the
// simulation until all workers are done; returns false on deadlock / cap
bool run_all();
void end();
const Stats &stats();
// events logged by workers / scheduler (owned by this uninstrumented TU)
std::vector<std::string> take_events();
std::vector<std::pair<uint64_t, int>> realised_switches();

// ---- worker API
void worker_enter(int id); // first statement of a worker: park until scheduled
void worker_exit(int id);  // last statement: hand the token on for good
void log_event(const std::string &line); // serialised by the token

// ---- yield points (no-ops outside a simulation / on unregistered threads)
void yield(int kind, const void *addr);
bool active_worker(); // is the calling thread a scheduled worker right now?

// guards: returns true if the caller may call the real __cxa_guard_acquire
// without blocking (the guard is free or already complete); otherwise the
// caller was descheduled until the owner finished, and must re-check
void guard_before_acquire(const void *g, bool complete);
void guard_acquired(const void *g);
void guard_released(const void *g);

// blocking synchronisation of the code under test (mutexes, rwlocks,
// pthread_once): the wrappers try the non-blocking variant and, when the
// resource is held by a parked thread, deschedule the caller until somebody
// releases it - really blocking would stop the world, because the holder
// cannot run while the blocked thread keeps the token
void block_on(const void *resource);
void resource_released(const void *resource);

} // namespace simsched
