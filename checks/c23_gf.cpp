// C23 (factorisation clause): GF(p)[x] factorisation is correct for EVERY
// random choice the algorithms make.
//
// gf_edf_zassenhaus / gf_edf_shoup draw random polynomials from mp_randstate,
// seeded by std::rand(). The randomness seam replays the same input under many
// seed lists. Oracle (independent mod-p arithmetic, no SymEngine code): the
// factors multiply back, are monic, irreducible (Rabin test) and distinct, and
// - factorisation over a field being unique - the factor set is identical
// under every seed list and for gf_zassenhaus, gf_shoup and gf_factor.
// Bounded liveness: every call finishes within a budget of rand() draws.
#include "../sim/harness.h"
#include "../sim/rand_seam.h"
#include <symengine/fields.h>
#include <algorithm>

using namespace sim;
using namespace SymEngine;

SIM_SANITIZER_DEFAULTS()

namespace
{
// ---------------- independent arithmetic in GF(p)[x] ------------------------
typedef std::vector<uint32_t> Poly; // low -> high, normalised (no leading 0)

void norm(Poly &a)
{
    while (!a.empty() && a.back() == 0)
        a.pop_back();
}
int deg(const Poly &a)
{
    return (int)a.size() - 1;
}
uint32_t inv_mod(uint32_t a, uint32_t p)
{
    int64_t t = 0, nt = 1, r = p, nr = a % p;
    while (nr) {
        int64_t q = r / nr;
        int64_t x = t - q * nt;
        t = nt;
        nt = x;
        x = r - q * nr;
        r = nr;
        nr = x;
    }
    return (uint32_t)((t % p + p) % p);
}
Poly mul(const Poly &a, const Poly &b, uint32_t p)
{
    if (a.empty() || b.empty())
        return Poly();
    Poly r(a.size() + b.size() - 1, 0);
    for (size_t i = 0; i < a.size(); i++)
        for (size_t j = 0; j < b.size(); j++)
            r[i + j] = (uint32_t)((r[i + j] + (uint64_t)a[i] * b[j]) % p);
    norm(r);
    return r;
}
Poly sub(const Poly &a, const Poly &b, uint32_t p)
{
    Poly r(std::max(a.size(), b.size()), 0);
    for (size_t i = 0; i < r.size(); i++) {
        uint32_t x = i < a.size() ? a[i] : 0, y = i < b.size() ? b[i] : 0;
        r[i] = (x + p - y) % p;
    }
    norm(r);
    return r;
}
Poly rem(Poly a, const Poly &b, uint32_t p)
{
    norm(a);
    uint32_t il = inv_mod(b.back(), p);
    while (deg(a) >= deg(b) && !a.empty()) {
        uint32_t c = (uint32_t)((uint64_t)a.back() * il % p);
        size_t sh = a.size() - b.size();
        for (size_t i = 0; i < b.size(); i++)
            a[sh + i] = (uint32_t)((a[sh + i] + (uint64_t)(p - c) * b[i]) % p);
        norm(a);
    }
    return a;
}
Poly gcd(Poly a, Poly b, uint32_t p)
{
    norm(a);
    norm(b);
    while (!b.empty()) {
        Poly r = rem(a, b, p);
        a = b;
        b = r;
    }
    if (!a.empty()) { // monic
        uint32_t il = inv_mod(a.back(), p);
        for (auto &c : a)
            c = (uint32_t)((uint64_t)c * il % p);
    }
    return a;
}
Poly powmod_x_p(const Poly &base, uint64_t e, const Poly &f, uint32_t p)
{
    Poly r = {1}, b = rem(base, f, p);
    while (e) {
        if (e & 1)
            r = rem(mul(r, b, p), f, p);
        b = rem(mul(b, b, p), f, p);
        e >>= 1;
    }
    return r;
}
// Rabin's irreducibility test
bool irreducible(const Poly &f, uint32_t p)
{
    int n = deg(f);
    if (n <= 0)
        return false;
    if (n == 1)
        return true;
    Poly x = {0, 1};
    // h_k = x^(p^k) mod f
    std::vector<Poly> h(n + 1);
    h[0] = rem(x, f, p);
    for (int k = 1; k <= n; k++)
        h[k] = powmod_x_p(h[k - 1], p, f, p);
    if (!(sub(h[n], rem(x, f, p), p).empty()))
        return false;
    for (int q = 2; q <= n; q++) {
        if (n % q)
            continue;
        bool prime = true;
        for (int d = 2; d * d <= q; d++)
            if (q % d == 0)
                prime = false;
        if (!prime)
            continue;
        Poly g = gcd(f, sub(h[n / q], rem(x, f, p), p), p);
        if (deg(g) != 0)
            return false;
    }
    return true;
}

const uint32_t PRIMES[] = {2,  2,  3,  3,  5,  7,  11,  13,  17,  19, 23,
                           29, 31, 37, 41, 43, 47, 53,  59,  61,  67, 71,
                           73, 79, 83, 89, 97, 101, 127, 151, 193, 199};

const char *ARITH_KINDS[] = {"iadd", "isub", "imul", "idiv", "imod", "iadd_c", "isub_c", "imul_c",
                             "idiv_c", "neg", "add", "sub", "mul", "divrem", "lshift", "rshift",
                             "sqr", "pow", "monic", "gcd", "lcm", "diff", "eval", "sqf",
                             "compose_mod", "pow_mod", "frobenius", "ddf", "copy"};
const unsigned N_ARITH = sizeof ARITH_KINDS / sizeof ARITH_KINDS[0];

Json poly_json(const Poly &a)
{
    Json j = Json::array();
    for (auto c : a)
        j.push(Json((long long)c));
    return j;
}
Poly poly_from(const Json &j, uint32_t p)
{
    Poly a;
    for (size_t i = 0; i < j.size(); i++)
        a.push_back((uint32_t)(((j[i].as_int() % p) + p) % p));
    norm(a);
    return a;
}
Poly random_monic(Rng &g, int d, uint32_t p)
{
    Poly a(d + 1);
    for (int i = 0; i < d; i++)
        a[i] = (uint32_t)g.below(p);
    a[d] = 1;
    return a;
}
Poly random_irreducible(Rng &g, int d, uint32_t p)
{
    for (int t = 0; t < 2000; t++) {
        Poly a = random_monic(g, d, p);
        if (irreducible(a, p))
            return a;
    }
    return Poly{(uint32_t)g.below(p), 1};
}

Json gen(uint64_t seed, const std::string &tier)
{
    Rng g(seed);
    bool thorough = tier == "thorough";
    Json plan = Json::object();
    uint32_t p = PRIMES[g.below(sizeof PRIMES / sizeof PRIMES[0])];
    Json cfg = Json::object();
    cfg["p"] = (long long)p;
    unsigned nseeds = thorough ? 8 + (unsigned)g.below(57) : 8 + (unsigned)g.below(17);
    cfg["nseeds"] = nseeds;
    plan["config"] = cfg;
    Json ops = Json::array();
    unsigned nops = 1 + (unsigned)g.below(4);
    unsigned arith_share = (unsigned)g.below(4); // swarm: 0 = factorisation only
    bool several_fields = g.chance(1, 2);        // swarm: fields interleaved in one run
    unsigned force_share = (unsigned)g.below(4); // swarm: 0 = no forced draws
    const uint32_t p0 = p;
    for (unsigned k = 0; k < nops; k++) {
        Json o = Json::object();
        p = p0;
        if (several_fields && k > 0 && g.chance(1, 2))
            p = PRIMES[g.below(sizeof PRIMES / sizeof PRIMES[0])];
        o["p"] = (long long)p;
        // p = 2: the trace loop of gf_edf_zassenhaus runs 2^(deg-1) squarings
        int maxdeg = p == 2 ? 8 : 12;
        if (g.below(4) < arith_share) {
            o["op"] = "arith";
            Json init = Json::array();
            unsigned np = 1 + (unsigned)g.below(4);
            for (unsigned i = 0; i < np; i++) {
                Poly a;
                switch (g.below(6)) {
                    case 0:
                        break; // zero polynomial
                    case 1:
                        a = Poly{(uint32_t)g.below(p)}; // constant
                        break;
                    case 2: { // a product with repeated factors
                        a = Poly{1};
                        for (int t = 0; t < 3; t++) {
                            Poly q = random_monic(g, 1 + (int)g.below(2), p);
                            unsigned m = 1 + (unsigned)g.below(p <= 3 ? 4 : 3);
                            if (p <= 3 && g.chance(1, 3))
                                m = p * p + (unsigned)g.below(2);
                            for (unsigned j = 0; j < m && deg(a) < 12; j++)
                                a = mul(a, q, p);
                        }
                        break;
                    }
                    default: {
                        int d = (int)g.below(9);
                        a.resize(d + 1);
                        for (auto &cf : a)
                            cf = (uint32_t)g.below(p);
                    }
                }
                norm(a);
                init.push(poly_json(a));
            }
            o["init"] = init;
            Json steps = Json::array();
            unsigned ns = 4 + (unsigned)g.below(thorough ? 40 : 24);
            std::vector<unsigned> kw(N_ARITH, 2);
            for (auto &x : kw)
                if (g.chance(1, 3))
                    x = g.chance(1, 2) ? 0 : 7;
            for (unsigned i = 0; i < ns; i++) {
                Json st = Json::object();
                st["k"] = ARITH_KINDS[g.weighted(kw)];
                st["a"] = (unsigned)g.below(np);
                st["b"] = g.chance(1, 5) ? st["a"] : Json((unsigned)g.below(np));
                st["c"] = (unsigned)g.below(np);
                long long nv;
                switch (g.below(5)) {
                    case 0:
                        nv = 0;
                        break;
                    case 1:
                        nv = (long long)p * (long long)g.range(-2, 2);
                        break;
                    case 2:
                        nv = g.range(-1000000, 1000000);
                        break;
                    default:
                        nv = (long long)g.below(p);
                }
                st["n"] = nv;
                steps.push(st);
            }
            o["steps"] = steps;
            ops.push(o);
            continue;
        }
        o["op"] = "factor";
        Poly f = {1};
        bool squarefree = true;
        if (p == 2 && g.chance(1, 3)) {
            // GF(2): two or three distinct irreducible factors of one degree
            // (3 or 4) - the case in which equal-degree splitting depends on
            // the random polynomial having more than one possible value
            int d = g.chance(2, 3) ? 4 : 3;
            std::vector<Poly> used;
            for (int tries = 0; tries < 40 && (int)used.size() < 2 && deg(f) + d <= 8; tries++) {
                Poly q = random_irreducible(g, d, p);
                if (std::find(used.begin(), used.end(), q) != used.end())
                    continue;
                used.push_back(q);
                f = mul(f, q, p);
            }
        } else if (g.chance(3, 4)) {
            // product of known irreducibles: equal-degree splitting has work
            int budget = 2 + (int)g.below(maxdeg - 1);
            std::vector<Poly> used;
            bool same_degree = g.chance(1, 2);
            int d0 = 1 + (int)g.below(p == 2 ? 4 : 3); // p = 2: up to two quartics in degree 8
            while (budget > 0) {
                int d = same_degree ? d0 : 1 + (int)g.below(std::min(4, budget));
                if (d > budget)
                    break;
                Poly q = random_irreducible(g, d, p);
                unsigned m = g.chance(1, 5) ? 2 + (unsigned)g.below(2) : 1;
                if (p <= 3 && g.chance(1, 4)) // multiplicity p^2 and beyond: second p-th root
                    m = p * p + (unsigned)g.below(3);
                if (std::find(used.begin(), used.end(), q) != used.end())
                    m = 1, squarefree = false;
                for (unsigned i = 0; i < m && budget >= d; i++) {
                    f = mul(f, q, p);
                    budget -= d;
                    if (i > 0)
                        squarefree = false;
                }
                used.push_back(q);
            }
        } else {
            f = random_monic(g, 1 + (int)g.below(maxdeg), p);
            squarefree = false; // unknown
        }
        uint32_t lc = g.chance(1, 3) ? 1 + (uint32_t)g.below(p - 1) : 1;
        Poly fl = f;
        for (auto &c : fl)
            c = (uint32_t)((uint64_t)c * lc % p);
        o["f"] = poly_json(fl);
        // which entry points: gf_factor always; the square-free-input ones
        // only when the input is known monic and square-free
        o["sqf_monic"] = squarefree && lc == 1;
        Json seeds = Json::array();
        for (unsigned s = 0; s < nseeds; s++) {
            Json l = Json::array();
            unsigned n = 1 + (unsigned)g.below(6);
            for (unsigned i = 0; i < n; i++) {
                int v;
                switch (g.below(12)) {
                    case 0:
                        v = 0;
                        break;
                    case 1:
                        v = 1;
                        break;
                    case 2:
                        v = 0x7fffffff;
                        break;
                    default:
                        v = (int)(g.next() & 0x7fffffff);
                }
                l.push(Json(v));
            }
            seeds.push(l);
        }
        o["seeds"] = seeds;
        // forced outcomes of individual GMP draws, one entry per seed list:
        // [] none; ["prefix", L, mode] the first L draws; ["at", i, mode, ...]
        Json force = Json::array();
        for (unsigned s = 0; s < nseeds; s++) {
            Json fz = Json::array();
            if (g.below(4) < force_share) {
                if (g.chance(1, 2)) {
                    static const unsigned L[] = {1, 2, 3, 5, 8, 13, 24, 40, 70, 120};
                    fz.push("prefix");
                    fz.push(L[g.below(10)]);
                    fz.push((unsigned)g.below(5));
                } else {
                    fz.push("at");
                    unsigned cnt = 1 + (unsigned)g.below(4);
                    for (unsigned i = 0; i < cnt; i++) {
                        fz.push((unsigned)g.below(g.chance(1, 2) ? 6 : 40));
                        fz.push((unsigned)g.below(5));
                    }
                }
            }
            force.push(fz);
        }
        o["force"] = force;
        ops.push(o);
    }
    plan["ops"] = ops;
    return plan;
}

// ---------------------------------------------------------------------------
Poly from_gf(const GaloisFieldDict &d, uint32_t p)
{
    Poly a;
    for (auto &c : d.dict_)
        a.push_back((uint32_t)mp_get_ui(c));
    norm(a);
    return a;
}
std::string show(const Poly &a)
{
    std::string s = "[";
    for (size_t i = 0; i < a.size(); i++)
        s += (i ? "," : "") + std::to_string(a[i]);
    return s + "]";
}

typedef std::vector<std::pair<Poly, unsigned>> Factors;

std::string show(const Factors &fs)
{
    std::string s;
    for (auto &f : fs)
        s += show(f.first) + "^" + std::to_string(f.second) + " ";
    return s;
}

// returns "" if (lc, fs) is THE factorisation of f
std::string check_factorisation(const Poly &f, uint32_t lc, Factors fs, uint32_t p)
{
    Poly prod = {lc % p};
    norm(prod);
    std::sort(fs.begin(), fs.end());
    for (size_t i = 0; i < fs.size(); i++) {
        const Poly &q = fs[i].first;
        if (q.empty() || q.back() != 1)
            return "factor " + show(q) + " is not monic";
        if (deg(q) < 1)
            return "constant factor " + show(q);
        if (i && fs[i - 1].first == q)
            return "factor " + show(q) + " listed twice";
        if (fs[i].second < 1)
            return "zero multiplicity";
        if (!irreducible(q, p))
            return "factor " + show(q) + " is reducible";
        for (unsigned e = 0; e < fs[i].second; e++)
            prod = mul(prod, q, p);
    }
    if (prod != f)
        return "factors multiply to " + show(prod) + ", not to the input";
    return "";
}


// ---------------- arithmetic history (mutable GaloisFieldDict objects) ------
Poly addp(const Poly &a, const Poly &b, uint32_t p)
{
    Poly r(std::max(a.size(), b.size()), 0);
    for (size_t i = 0; i < r.size(); i++)
        r[i] = ((i < a.size() ? a[i] : 0) + (i < b.size() ? b[i] : 0)) % p;
    norm(r);
    return r;
}
Poly scal(const Poly &a, uint32_t c, uint32_t p)
{
    Poly r(a);
    for (auto &x : r)
        x = (uint32_t)((uint64_t)x * c % p);
    norm(r);
    return r;
}
// a = q*b + r, deg r < deg b  (b != 0)
void divmodp(Poly a, const Poly &b, uint32_t p, Poly &q, Poly &r)
{
    norm(a);
    q.assign(a.size() >= b.size() ? a.size() - b.size() + 1 : 0, 0);
    uint32_t il = inv_mod(b.back(), p);
    while (!a.empty() && a.size() >= b.size()) {
        uint32_t c = (uint32_t)((uint64_t)a.back() * il % p);
        size_t sh = a.size() - b.size();
        q[sh] = c;
        for (size_t i = 0; i < b.size(); i++)
            a[sh + i] = (uint32_t)((a[sh + i] + (uint64_t)(p - c) * b[i]) % p);
        a.back() = 0;
        norm(a);
    }
    norm(q);
    r = a;
}
Poly diffp(const Poly &a, uint32_t p)
{
    Poly d(a.size() > 1 ? a.size() - 1 : 0);
    for (size_t i = 1; i < a.size(); i++)
        d[i - 1] = (uint32_t)((uint64_t)a[i] * (i % p) % p);
    norm(d);
    return d;
}
uint32_t evalp(const Poly &a, uint32_t x, uint32_t p)
{
    uint64_t r = 0;
    for (size_t i = a.size(); i-- > 0;)
        r = (r * x + a[i]) % p;
    return (uint32_t)r;
}
Poly powp(const Poly &a, unsigned n, uint32_t p)
{
    Poly r = {1 % p};
    norm(r);
    for (unsigned i = 0; i < n; i++)
        r = mul(r, a, p);
    return r;
}
bool squarefree(const Poly &f, uint32_t p) // f non-constant
{
    // f is square-free iff gcd(f, f') = 1 (f' = 0 means f is a p-th power)
    Poly d = diffp(f, p);
    if (d.empty())
        return deg(f) < 1;
    return deg(gcd(f, d, p)) == 0;
}
Poly to_monic(const Poly &f, uint32_t p)
{
    if (f.empty())
        return f;
    return scal(f, inv_mod(f.back(), p), p);
}

struct Arith {
    Run &run;
    uint32_t p;
    integer_class mod;
    std::vector<GaloisFieldDict> P;
    std::vector<Poly> M;
    unsigned judged = 0, inplace = 0;

    Arith(Run &r, uint32_t p_) : run(r), p(p_), mod((unsigned long)p_) {}

    GaloisFieldDict make(const Poly &a)
    {
        std::vector<integer_class> v;
        for (auto c : a)
            v.push_back(integer_class((unsigned long)c));
        return GaloisFieldDict::from_vec(v, mod);
    }
    // canonical representation: coefficients in [0, p), no leading zero
    std::string repr_error(const GaloisFieldDict &d)
    {
        if (d.modulo_ != mod)
            return "modulus changed";
        for (auto &c : d.dict_)
            if (c < integer_class(0) || c >= mod)
                return "coefficient " + integer(c)->__str__() + " outside [0, p)";
        if (!d.dict_.empty() && d.dict_.back() == integer_class(0))
            return "leading zero coefficient kept";
        return "";
    }
    bool same(const GaloisFieldDict &d, const Poly &m, const std::string &what)
    {
        std::string e = repr_error(d);
        if (!e.empty()) {
            run.fail("not-canonical:" + what.substr(0, what.find(' ')),
                     what + ": result " + e + " (p = " + std::to_string(p) + ")");
            return false;
        }
        Poly got = from_gf(d, p);
        if (got != m) {
            run.fail("wrong-arith:" + what.substr(0, what.find(' ')),
                     what + " mod " + std::to_string(p) + ": got " + show(got) + ", expected "
                         + show(m));
            return false;
        }
        judged++;
        return true;
    }
    void store(size_t c, const GaloisFieldDict &d, const Poly &m)
    {
        if (deg(m) > 24) { // keep histories bounded: same value, small degree
            Poly cut(m.begin(), m.begin() + 9);
            norm(cut);
            P[c] = make(cut);
            M[c] = cut;
            run.probe("arith_degree_capped");
        } else {
            P[c] = d;
            M[c] = m;
        }
    }
    void check_pool(const std::string &after)
    {
        for (size_t i = 0; i < P.size() && !run.failed(); i++)
            same(P[i], M[i], after + " [pool member " + std::to_string(i) + " afterwards]");
    }

    void step(const Json &o)
    {
        std::string k = o.gets("k");
        size_t n = P.size();
        size_t a = (size_t)o.geti("a") % n, b = (size_t)o.geti("b") % n,
               c = (size_t)o.geti("c") % n;
        long long v = o.geti("n");
        std::string tag = k + " a=" + std::to_string(a) + " b=" + std::to_string(b)
                          + " n=" + std::to_string(v) + " A=" + show(M[a]) + " B=" + show(M[b]);
        run.ev(tag);
        uint32_t vm = (uint32_t)(((v % (long long)p) + p) % p);
        try {
            if (k == "iadd" || k == "isub" || k == "imul" || k == "idiv" || k == "imod") {
                Poly mb = M[b], want; // copy: b may alias a
                bool zero_div = (k == "idiv" || k == "imod") && mb.empty();
                if (a == b)
                    run.probe("arith_aliased_operands");
                inplace++;
                if (zero_div) {
                    bool threw = false;
                    try {
                        if (k == "idiv")
                            P[a] /= P[b];
                        else
                            P[a] %= P[b];
                    } catch (const DivisionByZeroError &) {
                        threw = true;
                    }
                    if (!threw)
                        run.fail("no-zero-division-error:" + k, tag + ": division by the zero polynomial did not throw");
                    run.probe("arith_division_by_zero");
                } else {
                    if (k == "iadd") {
                        P[a] += P[b];
                        want = addp(M[a], mb, p);
                    } else if (k == "isub") {
                        P[a] -= P[b];
                        want = sub(M[a], mb, p);
                    } else if (k == "imul") {
                        P[a] *= P[b];
                        want = mul(M[a], mb, p);
                    } else {
                        Poly q, r;
                        divmodp(M[a], mb, p, q, r);
                        if (k == "idiv") {
                            P[a] /= P[b];
                            want = q;
                        } else {
                            P[a] %= P[b];
                            want = r;
                        }
                    }
                    M[a] = want;
                }
            } else if (k == "iadd_c" || k == "isub_c" || k == "imul_c" || k == "idiv_c") {
                inplace++;
                integer_class sc((long)v);
                Poly cst = {vm};
                norm(cst);
                if (k == "iadd_c") {
                    P[a] += sc;
                    M[a] = addp(M[a], cst, p);
                } else if (k == "isub_c") {
                    P[a] -= sc;
                    M[a] = sub(M[a], cst, p);
                } else if (k == "imul_c") {
                    P[a] *= sc;
                    M[a] = scal(M[a], vm, p);
                } else if (vm != 0) { // a multiple of p other than 0 has no inverse: not called
                    P[a] /= sc;
                    M[a] = scal(M[a], inv_mod(vm, p), p);
                } else {
                    bool threw = false;
                    try {
                        P[a] /= integer_class(0);
                    } catch (const DivisionByZeroError &) {
                        threw = true;
                    }
                    if (!threw)
                        run.fail("no-zero-division-error:" + k, tag + ": division by 0 did not throw");
                }
            } else if (k == "neg") {
                inplace++;
                if (v & 1) {
                    P[a].negate();
                    M[a] = sub(Poly(), M[a], p);
                } else {
                    GaloisFieldDict r = -P[a];
                    Poly w = sub(Poly(), M[a], p);
                    if (same(r, w, tag))
                        store(c, r, w);
                }
            } else if (k == "add" || k == "sub" || k == "mul") {
                GaloisFieldDict r = k == "add" ? P[a] + P[b] : k == "sub" ? P[a] - P[b] : P[a] * P[b];
                Poly w = k == "add" ? addp(M[a], M[b], p) : k == "sub" ? sub(M[a], M[b], p) : mul(M[a], M[b], p);
                if (same(r, w, tag))
                    store(c, r, w);
            } else if (k == "divrem") {
                if (M[b].empty()) {
                    bool threw = false;
                    GaloisFieldDict q, r;
                    try {
                        P[a].gf_div(P[b], outArg(q), outArg(r));
                    } catch (const DivisionByZeroError &) {
                        threw = true;
                    }
                    if (!threw)
                        run.fail("no-zero-division-error:gf_div", tag + ": gf_div by the zero polynomial did not throw");
                } else {
                    Poly wq, wr;
                    divmodp(M[a], M[b], p, wq, wr);
                    GaloisFieldDict q, r;
                    P[a].gf_div(P[b], outArg(q), outArg(r));
                    GaloisFieldDict q2 = P[a] / P[b], r2 = P[a] % P[b];
                    if (same(q, wq, tag + " [gf_div quotient]") && same(r, wr, tag + " [gf_div remainder]")
                        && same(q2, wq, tag + " [operator/]") && same(r2, wr, tag + " [operator%]")) {
                        store(c, q, wq);
                        store(a, r, wr);
                    }
                }
            } else if (k == "lshift" || k == "rshift") {
                unsigned sh = (unsigned)(vm % 7);
                if (k == "lshift") {
                    GaloisFieldDict r = P[a].gf_lshift(integer_class((unsigned long)sh));
                    Poly w;
                    if (!M[a].empty()) {
                        w.assign(sh, 0);
                        w.insert(w.end(), M[a].begin(), M[a].end());
                    }
                    if (same(r, w, tag))
                        store(c, r, w);
                } else {
                    GaloisFieldDict q, r;
                    P[a].gf_rshift(integer_class((unsigned long)sh), outArg(q), outArg(r));
                    Poly wq, wr;
                    if (sh < M[a].size()) {
                        wq.assign(M[a].begin() + sh, M[a].end());
                        wr.assign(M[a].begin(), M[a].begin() + sh);
                    } else
                        wr = M[a];
                    norm(wq);
                    norm(wr);
                    if (same(q, wq, tag + " [quotient]") && same(r, wr, tag + " [remainder]"))
                        store(c, q, wq);
                }
            } else if (k == "sqr" || k == "pow") {
                unsigned e = k == "sqr" ? 2 : (unsigned)(vm % 6);
                if (deg(M[a]) * (int)e > 40)
                    e = 2;
                GaloisFieldDict r = k == "sqr" ? P[a].gf_sqr() : P[a].gf_pow(e);
                Poly w = powp(M[a], e, p);
                if (same(r, w, tag))
                    store(c, r, w);
            } else if (k == "monic") {
                integer_class lc;
                GaloisFieldDict r;
                P[a].gf_monic(lc, outArg(r));
                uint32_t wl = M[a].empty() ? 0 : M[a].back();
                if (lc != integer_class((unsigned long)wl))
                    run.fail("wrong-arith:monic", tag + ": leading coefficient " + integer(lc)->__str__()
                                                      + ", expected " + std::to_string(wl));
                else if (same(r, to_monic(M[a], p), tag))
                    store(c, r, to_monic(M[a], p));
            } else if (k == "gcd" || k == "lcm") {
                Poly g = gcd(M[a], M[b], p), w;
                if (k == "gcd")
                    w = g;
                else if (M[a].empty() || M[b].empty())
                    w = Poly();
                else {
                    Poly q, r;
                    divmodp(mul(M[a], M[b], p), g, p, q, r);
                    w = to_monic(q, p);
                }
                GaloisFieldDict r = k == "gcd" ? P[a].gf_gcd(P[b]) : P[a].gf_lcm(P[b]);
                if (same(r, w, tag))
                    store(c, r, w);
            } else if (k == "diff") {
                GaloisFieldDict r = P[a].gf_diff();
                if (same(r, diffp(M[a], p), tag))
                    store(c, r, diffp(M[a], p));
            } else if (k == "eval") {
                integer_class r = P[a].gf_eval(integer_class((unsigned long)vm));
                uint32_t w = evalp(M[a], vm, p);
                if (r != integer_class((unsigned long)w))
                    run.fail("wrong-arith:eval", tag + ": value at " + std::to_string(vm) + " is "
                                                     + integer(r)->__str__() + ", expected " + std::to_string(w));
                else
                    judged++;
                vec_integer_class pts;
                for (uint32_t x = 0; x < p && x < 12; x++)
                    pts.push_back(integer_class((unsigned long)((x + vm) % p)));
                vec_integer_class rs = P[a].gf_multi_eval(pts);
                for (size_t i = 0; i < pts.size() && !run.failed(); i++) {
                    uint32_t x = (uint32_t)mp_get_ui(pts[i]);
                    if (rs.size() != pts.size() || rs[i] != integer_class((unsigned long)evalp(M[a], x, p)))
                        run.fail("wrong-arith:multi_eval", tag + ": multi_eval wrong at " + std::to_string(x));
                }
            } else if (k == "sqf") {
                if (deg(M[a]) >= 1) {
                    bool got = P[a].gf_is_sqf();
                    bool w = squarefree(M[a], p);
                    if (got != w)
                        run.fail("wrong-arith:is_sqf", tag + ": gf_is_sqf says " + (got ? "yes" : "no"));
                    auto lst = P[a].gf_sqf_list();
                    Poly prod = {1};
                    std::vector<Poly> parts;
                    for (auto &f : lst) {
                        std::string e = repr_error(f.first);
                        Poly h = from_gf(f.first, p);
                        if (!e.empty() || deg(h) < 1 || h.back() != 1 || !squarefree(h, p) || f.second < 1) {
                            run.fail("wrong-arith:sqf_list", tag + ": part " + show(h) + "^" + std::to_string(f.second)
                                                                 + " is not a monic square-free non-constant polynomial");
                            break;
                        }
                        for (auto &o2 : parts)
                            if (deg(gcd(o2, h, p)) != 0)
                                run.fail("wrong-arith:sqf_list", tag + ": parts " + show(o2) + " and " + show(h) + " are not coprime");
                        parts.push_back(h);
                        prod = mul(prod, powp(h, f.second, p), p);
                    }
                    if (!run.failed() && prod != to_monic(M[a], p))
                        run.fail("wrong-arith:sqf_list", tag + ": parts multiply to " + show(prod) + ", not to the monic input");
                    if (!run.failed()) {
                        GaloisFieldDict sp = P[a].gf_sqf_part();
                        Poly rad = {1};
                        for (auto &h : parts)
                            rad = mul(rad, h, p);
                        if (same(sp, rad, tag + " [sqf_part]"))
                            store(c, sp, rad);
                    }
                    run.probe(w ? "arith_sqf_input" : "arith_non_sqf_input");
                }
            } else if (k == "compose_mod" || k == "pow_mod" || k == "frobenius") {
                // modulus = pool member b, needs degree >= 1
                if (deg(M[b]) >= 1) {
                    if (k == "compose_mod") {
                        // g(h) mod f with g = A, h = pool member c
                        GaloisFieldDict r = P[b].gf_compose_mod(P[a], P[c]);
                        Poly w;
                        for (size_t i = M[a].size(); i-- > 0;) {
                            w = mul(w, M[c], p);
                            Poly cst = {M[a][i]};
                            norm(cst);
                            w = rem(addp(w, cst, p), M[b], p);
                        }
                        same(r, w, tag + " [g(h) mod f, h=" + show(M[c]) + "]");
                    } else if (k == "pow_mod") {
                        unsigned e = (unsigned)(v < 0 ? -v : v) % 200;
                        GaloisFieldDict r = P[b].gf_pow_mod(P[a], e);
                        Poly w = {1};
                        Poly base = rem(M[a], M[b], p);
                        for (unsigned i = 0; i < e; i++)
                            w = rem(mul(w, base, p), M[b], p);
                        if (e == 0)
                            w = Poly{1};
                        same(r, w, tag + " [A^" + std::to_string(e) + " mod B]");
                    } else {
                        auto base = P[b].gf_frobenius_monomial_base();
                        int nb = deg(M[b]);
                        if ((int)base.size() != nb)
                            run.fail("wrong-arith:frobenius_base", tag + ": base has " + std::to_string(base.size()) + " entries");
                        Poly x = {0, 1};
                        for (int i = 0; i < nb && !run.failed(); i++) {
                            // x^(i*p) mod B
                            Poly w = powmod_x_p(powp(x, (unsigned)i, p), p, M[b], p);
                            same(base[i], w, tag + " [x^(" + std::to_string(i) + "p) mod B]");
                        }
                        if (!run.failed()) {
                            GaloisFieldDict r = P[a].gf_frobenius_map(P[b], base);
                            Poly w = powmod_x_p(M[a], p, M[b], p);
                            same(r, w, tag + " [A^p mod B]");
                        }
                    }
                }
            } else if (k == "ddf") {
                // distinct-degree factorisation of a monic square-free polynomial
                Poly f = to_monic(M[a], p);
                if (deg(f) >= 1 && squarefree(f, p)) {
                    GaloisFieldDict F = make(f);
                    for (int which = 0; which < 2 && !run.failed(); which++) {
                        auto parts = which ? F.gf_ddf_shoup() : F.gf_ddf_zassenhaus();
                        const char *nm = which ? "gf_ddf_shoup" : "gf_ddf_zassenhaus";
                        Poly prod = {1};
                        Poly x = {0, 1};
                        for (auto &pr : parts) {
                            Poly h = from_gf(pr.first, p);
                            unsigned d = pr.second;
                            std::string e = repr_error(pr.first);
                            if (!e.empty() || deg(h) < 1 || d < 1 || deg(h) % (int)d != 0) {
                                run.fail(std::string("wrong-arith:") + nm, tag + ": part " + show(h) + " for degree " + std::to_string(d) + " is malformed");
                                break;
                            }
                            // every irreducible factor of h has degree exactly d
                            Poly fr = rem(x, h, p);
                            for (unsigned kk = 1; kk <= d; kk++) {
                                fr = powmod_x_p(fr, p, h, p); // x^(p^kk) mod h
                                Poly diff = sub(fr, rem(x, h, p), p);
                                if (kk < d && deg(gcd(h, diff, p)) != 0) {
                                    run.fail(std::string("wrong-arith:") + nm, tag + ": part " + show(h) + " listed for degree " + std::to_string(d) + " has a factor of degree dividing " + std::to_string(kk));
                                    break;
                                }
                                if (kk == d && !diff.empty())
                                    run.fail(std::string("wrong-arith:") + nm, tag + ": part " + show(h) + " listed for degree " + std::to_string(d) + " has a factor of another degree");
                            }
                            prod = mul(prod, h, p);
                        }
                        if (!run.failed() && prod != f)
                            run.fail(std::string("wrong-arith:") + nm, tag + ": parts multiply to " + show(prod) + ", not to " + show(f));
                        if (!run.failed())
                            judged++;
                    }
                    run.probe("arith_ddf_checked");
                }
            } else if (k == "copy") {
                P[c] = P[a];
                M[c] = M[a];
                inplace++;
            }
        } catch (const SymEngineException &e) {
            run.fail("exception:arith:" + k, tag + " threw " + e.what());
        }
        if (!run.failed())
            check_pool(tag);
    }
};


void exec_arith(Run &run, const Json &o, uint32_t p)
{
    Arith A(run, p);
    const Json &init = o.at("init");
    for (size_t i = 0; i < init.size() && i < 5; i++) {
        Poly m = poly_from(init[i], p);
        if (deg(m) > 24)
            m.resize(9), norm(m);
        A.M.push_back(m);
        A.P.push_back(A.make(m));
    }
    if (A.P.empty()) {
        A.M.push_back(Poly{1, 1});
        A.P.push_back(A.make(A.M[0]));
    }
    const Json &steps = o.at("steps");
    for (size_t i = 0; i < steps.size() && !run.failed(); i++) {
        run.steps++;
        A.step(steps[i]);
    }
    run.count("arith_results_judged", A.judged);
    if (A.inplace >= 3)
        run.probe("arith_history_of_in_place_updates");
}

void exec(Run &run)
{
    const uint32_t cfg_p = (uint32_t)run.plan.at("config").geti("p", 3);
    const Json &ops = run.plan.at("ops");
    unsigned judged = 0;
    bool arith_hist = false;
    std::set<uint32_t> fields_used;
    for (size_t k = 0; k < ops.size() && !run.failed(); k++) {
        const Json &o = ops[k];
        run.steps++;
        uint32_t p = (uint32_t)o.geti("p", cfg_p);
        bool isp = p >= 2 && p < 1000;
        for (uint32_t d = 2; d * d <= p; d++)
            if (p % d == 0)
                isp = false;
        if (!isp)
            p = 3;
        integer_class mod((unsigned long)p);
        fields_used.insert(p);
        if (fields_used.size() > 1)
            run.probe("several_fields_in_one_run");
        if (o.gets("op") == "arith") {
            exec_arith(run, o, p);
            if (run.counters.count("probe.arith_history_of_in_place_updates"))
                arith_hist = true;
            continue;
        }
        Poly f = poly_from(o.at("f"), p);
        if (deg(f) < 1 || deg(f) > 14) {
            run.ev("skip degenerate input");
            continue;
        }
        std::vector<integer_class> v;
        for (auto c : f)
            v.push_back(integer_class((unsigned long)c));
        GaloisFieldDict gf = GaloisFieldDict::from_vec(v, mod);
        bool sqf_monic = o.at("sqf_monic").as_bool() && f.back() == 1;
        if (sqf_monic) { // the plan says so; believe only what we can check
            Poly df(f.size() - 1);
            for (size_t i = 1; i < f.size(); i++)
                df[i - 1] = (uint32_t)((uint64_t)f[i] * i % p);
            norm(df);
            if (df.empty() || deg(gcd(f, df, p)) != 0)
                sqf_monic = false;
        }
        const Json &seeds = o.at("seeds");
        Factors reference;
        bool have_ref = false;
        std::string ref_from;
        run.ev("factor p=" + std::to_string(p) + " f=" + show(f));
        for (size_t s = 0; s <= seeds.size() && !run.failed(); s++) {
            std::vector<int> list;
            if (s < seeds.size())
                for (size_t i = 0; i < seeds[s].size(); i++)
                    list.push_back((int)seeds[s][i].as_int());
            else
                list = {12345}; // one more list, always the same
            static const char *algos[] = {"gf_factor", "gf_zassenhaus", "gf_shoup"};
            for (int a = 0; a < (sqf_monic ? 3 : 1) && !run.failed(); a++) {
                simrand::set(list, 20000);
                if (s < seeds.size() && s < o.at("force").size()) {
                    const Json &fz = o.at("force")[s];
                    if (fz.size() >= 3 && fz[0].s == "prefix") {
                        uint64_t L = (uint64_t)std::min<int64_t>(200, fz[1].as_int());
                        for (uint64_t i = 0; i < L; i++)
                            simrand::force(i, (int)(fz[2].as_int() % 5));
                    } else if (fz.size() >= 3 && fz[0].s == "at") {
                        for (size_t i = 1; i + 1 < fz.size(); i += 2)
                            simrand::force((uint64_t)(fz[i].as_int() % 200), (int)(fz[i + 1].as_int() % 5));
                    }
                }
                Factors got;
                uint32_t lc = 1;
                try {
                    if (a == 0) {
                        auto r = gf.gf_factor();
                        lc = (uint32_t)mp_get_ui(r.first);
                        for (auto &q : r.second)
                            got.emplace_back(from_gf(q.first, p), q.second);
                    } else {
                        auto r = a == 1 ? gf.gf_zassenhaus() : gf.gf_shoup();
                        for (auto &q : r)
                            got.emplace_back(from_gf(q, p), 1u);
                    }
                } catch (const simrand::BudgetExceeded &) {
                    run.fail(std::string("no-progress:") + algos[a],
                             std::string(algos[a]) + " did not finish within 20000 "
                                 "rand() draws on " + show(f) + " mod "
                                 + std::to_string(p));
                    break;
                } catch (const SymEngineException &e) {
                    run.fail(std::string("exception:") + algos[a],
                             std::string(algos[a]) + " threw " + e.what() + " on "
                                 + show(f) + " mod " + std::to_string(p));
                    break;
                }
                uint64_t draws = simrand::state().draws;
                run.count("rand_draws", draws);
                run.count("gmp_draws", simrand::state().gmp_draws);
                if (simrand::state().forced_fired)
                    run.counters["fault.gmp_draw_forced"] += simrand::state().forced_fired;
                run.fault("seed_list_replayed");
                if (draws > 0)
                    run.probe("random_splitting_used");
                if (draws > list.size())
                    run.probe("seed_list_exhausted_continued");
                std::sort(got.begin(), got.end());
                std::string why = check_factorisation(f, lc, got, p);
                if (!why.empty()) {
                    run.fail(std::string("wrong-factorisation:") + algos[a],
                             std::string(algos[a]) + "(" + show(f) + " mod "
                                 + std::to_string(p) + ") = " + std::to_string(lc)
                                 + " * " + show(got) + ": " + why);
                    break;
                }
                if (!have_ref) {
                    reference = got;
                    have_ref = true;
                    ref_from = std::string(algos[a]) + " seeds#" + std::to_string(s);
                    run.ev("  = " + std::to_string(lc) + " * " + show(got));
                } else if (got != reference) {
                    run.fail(std::string("seed-dependent-result:") + algos[a],
                             std::string(algos[a]) + " under seed list #"
                                 + std::to_string(s) + " gives " + show(got) + " but "
                                 + ref_from + " gave " + show(reference));
                    break;
                }
                judged++;
            }
        }
        if (p == 2)
            run.probe("characteristic_2_branch");
        if (reference.size() >= 2) {
            bool eqdeg = false;
            for (size_t i = 1; i < reference.size(); i++)
                if (deg(reference[i].first) == deg(reference[i - 1].first))
                    eqdeg = true;
            if (eqdeg)
                run.probe("equal_degree_factors_present");
        }
    }
    simrand::set({}, 0);
    run.nontrivial = (judged >= 4 && run.counters.count("probe.random_splitting_used")) || arith_hist;
}

} // namespace

int main(int argc, char **argv)
{
    Check c = {"C23", 23, gen, exec, nullptr};
    return harness_main(argc, argv, c);
}
