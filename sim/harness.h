// Common harness: plan generation / execution modes, event log, counters.
//
//   <bin> --gen  TIER VERIF_SEED RUN            print the plan of run RUN
//   <bin> --exec PLANFILE [--events FILE]       execute one plan (replay)
//   <bin> --worker TIER VERIF_SEED              read "a b" run ranges on stdin
//
// Worker protocol (stdout, one flushed line each):
//   S <run>                          a run is starting (parent knows what was
//                                    in flight if the process dies)
//   R <run> <hash> <nontriv> <steps> <sig|->    run finished
//   V <run> {json}                   violation details (before the R line)
//   E {json}                         aggregated counters at end of input
//
// Nothing in here reads a clock or draws from the PRNG while logging.
#pragma once
#include "json.h"
#include "rng.h"
#include <cstdio>
#include <cstdlib>
#include <cstring>
#include <fstream>
#include <iostream>
#include <map>
#include <set>
#include <sstream>
#include <string>
#include <typeinfo>
#include <unistd.h>
#include <cxxabi.h>

namespace sim
{

struct Run {
    const Json &plan;
    uint64_t hash = 1469598103934665603ULL;
    uint64_t steps = 0;
    bool nontrivial = false;
    std::string sig;    // empty = property held on this run
    std::string detail; // human readable
    std::map<std::string, uint64_t> counters;
    std::set<uint64_t> states;
    FILE *events = nullptr; // replay mode: every event line is written here
    uint64_t nevents = 0;

    explicit Run(const Json &p) : plan(p) {}

    void ev(const std::string &line)
    {
        hash = fnv1a(line.data(), line.size(), hash);
        hash = fnv1a("\n", 1, hash);
        ++nevents;
        if (events) {
            fwrite(line.data(), 1, line.size(), events);
            fputc('\n', events);
            fflush(events);
        }
    }
    void fault(const std::string &kind)
    {
        counters["fault." + kind]++;
    }
    void probe(const std::string &name)
    {
        counters["probe." + name]++;
    }
    void count(const std::string &name, uint64_t n = 1)
    {
        counters[name] += n;
    }
    void state(uint64_t h)
    {
        states.insert(h);
    }
    // record the first violation only: later ones may be consequences
    void fail(const std::string &signature, const std::string &what)
    {
        if (sig.empty()) {
            sig = signature;
            detail = what;
            ev("VIOLATION " + signature);
        }
    }
    bool failed() const
    {
        return !sig.empty();
    }
};

struct Check {
    const char *id;
    uint64_t tag;
    Json (*gen)(uint64_t seed, const std::string &tier);
    void (*exec)(Run &);
    // optional: called once per process before the first run
    void (*warmup)();
};

inline std::string demangle(const char *n)
{
    int st = 0;
    char *d = abi::__cxa_demangle(n, nullptr, nullptr, &st);
    std::string r = (st == 0 && d) ? d : n;
    free(d);
    return r;
}

inline void exec_guarded(const Check &c, Run &run)
{
    try {
        c.exec(run);
    } catch (const std::exception &e) {
        run.fail("escaped-exception:" + demangle(typeid(e).name()),
                 std::string("exception escaped the run: ") + e.what());
    } catch (...) {
        run.fail("escaped-exception:unknown", "non-std exception escaped");
    }
}

inline Json result_json(const Run &run)
{
    Json j = Json::object();
    j["sig"] = run.sig;
    j["detail"] = run.detail;
    char hb[32];
    snprintf(hb, sizeof hb, "%016llx", (unsigned long long)run.hash);
    j["hash"] = hb;
    j["steps"] = (long long)run.steps;
    j["events"] = (long long)run.nevents;
    j["nontrivial"] = run.nontrivial;
    Json cs = Json::object();
    for (auto &p : run.counters)
        cs[p.first] = (long long)p.second;
    j["counters"] = cs;
    j["states"] = (long long)run.states.size();
    return j;
}

inline Json make_plan(const Check &c, const std::string &tier,
                      uint64_t verif_seed, uint64_t r)
{
    uint64_t seed = derive_seed(verif_seed, c.tag, r) >> 1;
    Json plan = c.gen(seed, tier);
    Json out = Json::object();
    out["check"] = c.id;
    out["tier"] = tier;
    out["verif_seed"] = (long long)verif_seed;
    out["run"] = (long long)r;
    out["run_seed"] = (long long)seed;
    for (auto &p : plan.o)
        out[p.first] = p.second;
    return out;
}

inline int harness_main(int argc, char **argv, const Check &c)
{
    std::ios::sync_with_stdio(false);
    if (argc < 2) {
        fprintf(stderr, "usage: %s --gen|--exec|--worker ...\n", argv[0]);
        return 2;
    }
    std::string mode = argv[1];
    if (mode == "--gen" && argc >= 5) {
        Json plan = make_plan(c, argv[2], strtoull(argv[3], nullptr, 10),
                              strtoull(argv[4], nullptr, 10));
        printf("%s\n", plan.dump().c_str());
        return 0;
    }
    if (mode == "--exec" && argc >= 3) {
        std::ifstream f(argv[2], std::ios::binary);
        if (!f) {
            fprintf(stderr, "cannot open %s\n", argv[2]);
            return 2;
        }
        std::stringstream ss;
        ss << f.rdbuf();
        Json plan;
        try {
            plan = Json::parse(ss.str());
        } catch (const std::exception &e) {
            fprintf(stderr, "bad plan: %s\n", e.what());
            return 2;
        }
        Run run(plan);
        for (int k = 3; k + 1 < argc; k++)
            if (!strcmp(argv[k], "--events"))
                run.events = fopen(argv[k + 1], "w");
        if (c.warmup)
            c.warmup();
        // "sequence": plans that the same process executed before this one
        // (a violation that depends on what earlier runs left behind in
        // process-global state is replayed together with that history)
        if (plan.has("sequence")) {
            const Json &seq = plan.at("sequence");
            for (size_t i = 0; i < seq.size(); i++) {
                Run before(seq[i]);
                exec_guarded(c, before);
            }
        }
        exec_guarded(c, run);
        printf("RESULT %s\n", result_json(run).dump().c_str());
        fflush(stdout);
        if (run.events)
            fclose(run.events);
        return run.failed() ? 1 : 0;
    }
    if (mode == "--worker" && argc >= 4) {
        std::string tier = argv[2];
        uint64_t vseed = strtoull(argv[3], nullptr, 10);
        std::map<std::string, uint64_t> counters;
        std::set<uint64_t> states;
        uint64_t total_steps = 0, runs = 0, total_events = 0;
        if (c.warmup)
            c.warmup();
        char line[256];
        while (fgets(line, sizeof line, stdin)) {
            unsigned long long a = 0, b = 0;
            if (sscanf(line, "%llu %llu", &a, &b) != 2)
                continue;
            for (uint64_t r = a; r < b; r++) {
                printf("S %llu\n", (unsigned long long)r);
                fflush(stdout);
                Json plan = make_plan(c, tier, vseed, r);
                Run run(plan);
                exec_guarded(c, run);
                for (auto &p : run.counters)
                    counters[p.first] += p.second;
                for (auto s : run.states)
                    states.insert(s);
                total_steps += run.steps;
                total_events += run.nevents;
                runs++;
                if (run.failed()) {
                    Json v = Json::object();
                    v["sig"] = run.sig;
                    v["detail"] = run.detail;
                    printf("V %llu %s\n", (unsigned long long)r,
                           v.dump().c_str());
                }
                printf("R %llu %016llx %d %llu %s\n", (unsigned long long)r,
                       (unsigned long long)run.hash, run.nontrivial ? 1 : 0,
                       (unsigned long long)run.steps,
                       run.failed() ? "!" : "-");
                fflush(stdout);
            }
            printf("D %llu %llu\n", a, b);
            fflush(stdout);
        }
        Json e = Json::object();
        e["runs"] = (long long)runs;
        e["steps"] = (long long)total_steps;
        e["events"] = (long long)total_events;
        Json cs = Json::object();
        for (auto &p : counters)
            cs[p.first] = (long long)p.second;
        e["counters"] = cs;
        Json st = Json::array();
        for (auto s : states) {
            char hb[32];
            snprintf(hb, sizeof hb, "%llx", (unsigned long long)s);
            st.push(Json(hb));
        }
        e["states"] = st;
        printf("E %s\n", e.dump().c_str());
        fflush(stdout);
        return 0;
    }
    fprintf(stderr, "bad arguments\n");
    return 2;
}

} // namespace sim

// Sanitizer defaults for every harness binary: exit code 77 on ASan/UBSan
// reports so the parent can classify, leak detection off (process-lifetime
// statics), no recovery.
#define SIM_SANITIZER_DEFAULTS()                                               \
    extern "C" __attribute__((used, visibility("default"))) const char        \
        *__asan_default_options()                                              \
    {                                                                          \
        return "exitcode=77:detect_leaks=0:abort_on_error=0:"                  \
               "allocator_may_return_null=1:detect_stack_use_after_return=0:"  \
               "detect_container_overflow=1:handle_segv=1:handle_abort=1:"     \
               "quarantine_size_mb=16:malloc_context_size=3";                  \
    }                                                                          \
    extern "C" __attribute__((used, visibility("default"))) const char        \
        *__ubsan_default_options()                                             \
    {                                                                          \
        return "halt_on_error=1:exitcode=77:print_stacktrace=1";               \
    }
