// Blocking synchronisation under the deterministic scheduler (link-time
// --wrap of pthread_mutex_lock/unlock, pthread_rwlock_*lock/unlock and
// pthread_once, as called from libsymengine.a and the harness): code under
// test that protects something with a std::mutex, std::shared_mutex or
// std::call_once must neither stop the simulation (a thread really blocking
// on a lock whose holder is parked keeps the run token for ever) nor be
// reported for it. The wrappers take the lock with the non-blocking variant -
// which ThreadSanitizer intercepts, so its happens-before edges are the real
// ones - and deschedule the caller while a parked thread holds it. A cycle of
// threads waiting for each other is a real deadlock and is reported as one.
// NOT compiled with -fsanitize=thread.
#include "sched.h"
#include <cerrno>
#include <pthread.h>

extern "C" {
int __real_pthread_mutex_lock(pthread_mutex_t *m);
int __real_pthread_mutex_unlock(pthread_mutex_t *m);
int __real_pthread_rwlock_rdlock(pthread_rwlock_t *l);
int __real_pthread_rwlock_wrlock(pthread_rwlock_t *l);
int __real_pthread_rwlock_unlock(pthread_rwlock_t *l);
int __real_pthread_once(pthread_once_t *o, void (*fn)(void));

int __wrap_pthread_mutex_lock(pthread_mutex_t *m)
{
    if (!simsched::active_worker())
        return __real_pthread_mutex_lock(m);
    simsched::yield(simsched::K_GUARD, m);
    for (;;) {
        int r = pthread_mutex_trylock(m);
        if (r != EBUSY)
            return r;
        simsched::block_on(m);
    }
}
int __wrap_pthread_mutex_unlock(pthread_mutex_t *m)
{
    int r = __real_pthread_mutex_unlock(m);
    simsched::resource_released(m);
    return r;
}
int __wrap_pthread_rwlock_rdlock(pthread_rwlock_t *l)
{
    if (!simsched::active_worker())
        return __real_pthread_rwlock_rdlock(l);
    simsched::yield(simsched::K_GUARD, l);
    for (;;) {
        int r = pthread_rwlock_tryrdlock(l);
        if (r != EBUSY)
            return r;
        simsched::block_on(l);
    }
}
int __wrap_pthread_rwlock_wrlock(pthread_rwlock_t *l)
{
    if (!simsched::active_worker())
        return __real_pthread_rwlock_wrlock(l);
    simsched::yield(simsched::K_GUARD, l);
    for (;;) {
        int r = pthread_rwlock_trywrlock(l);
        if (r != EBUSY)
            return r;
        simsched::block_on(l);
    }
}
int __wrap_pthread_rwlock_unlock(pthread_rwlock_t *l)
{
    int r = __real_pthread_rwlock_unlock(l);
    simsched::resource_released(l);
    return r;
}

// pthread_once: the thread that runs the routine may be descheduled inside it;
// others arriving meanwhile must wait without holding the token
static pthread_once_t *once_busy[64];
static int once_owner[64];
static int n_once = 0;
int __wrap_pthread_once(pthread_once_t *o, void (*fn)(void))
{
    if (!simsched::active_worker())
        return __real_pthread_once(o, fn);
    simsched::yield(simsched::K_GUARD, o);
    for (;;) {
        bool busy = false;
        for (int i = 0; i < n_once; i++)
            if (once_busy[i] == o)
                busy = true;
        if (!busy)
            break;
        simsched::block_on(o);
    }
    int slot = -1;
    if (n_once < 64) {
        slot = n_once++;
        once_busy[slot] = o;
        once_owner[slot] = 0;
    }
    int r = __real_pthread_once(o, fn);
    if (slot >= 0) {
        for (int i = 0; i < n_once; i++)
            if (once_busy[i] == o) {
                once_busy[i] = once_busy[n_once - 1];
                n_once--;
                break;
            }
    }
    simsched::resource_released(o);
    return r;
}
}
