// C41: in the thread-safe build, threads may concurrently hash, compare,
// print, differentiate, substitute into, expand and combine SHARED immutable
// expressions: no data race, and every thread gets the results of a
// sequential run.
//
// Simulation: the main thread builds 3-8 shared expressions and leaves them
// untouched (hash_ still 0, function-local statics cold in a fresh process);
// 2-4 real worker threads then run their operation lists under the
// deterministic scheduler of sim/sched.cpp, which decides at every atomic
// access of the library (and every static-initialisation guard) who runs next.
// Oracles: ThreadSanitizer (happens-before, over the serialised execution),
// per-thread result strings == sequential reference on freshly rebuilt
// expressions, reference-count conservation, Dummy indices unique, bounded
// liveness (step cap, static-guard deadlock detection).
#include "../sim/harness.h"
#include "../sim/exprgen.h"
#include "../sim/sched.h"
#include <symengine/visitor.h>
#include <symengine/eval_double.h>
#include <thread>
#include <atomic>
#include <mutex>

using namespace sim;
using namespace SymEngine;

#if defined(__SANITIZE_THREAD__)
extern "C" __attribute__((used, visibility("default"))) const char *
__tsan_default_options()
{
    return "halt_on_error=1:exitcode=66:report_thread_leaks=0:history_size=5:"
           "second_deadlock_stack=1:report_signal_unsafe=0";
}
#else
SIM_SANITIZER_DEFAULTS()
#endif

namespace
{
const int MAXTHREADS = 4;

simx::Profile shared_profile()
{
    simx::Profile p;
    p.unary = {"sin",  "cos",  "tan",  "cot",  "sec",   "csc",  "asin", "acos",
               "atan", "sinh", "cosh", "tanh", "asinh", "log",  "exp",  "abs",
               "sqrt", "erf",  "gamma", "neg", "sign",  "floor"};
    p.binary = {"atan2"};
    p.relational = false;
    p.logic = false;
    p.piecewise = false;
    p.contains = false;
    p.maxmin = true;
    p.complexes = true;
    p.nsyms = 4;
    return p;
}

// leaves that hit the lazily built trig tables: q*pi/12
Json special_angle(Rng &g)
{
    static const char *fs[] = {"sin", "cos", "tan", "cot", "sec", "csc"};
    Json r = Json::array();
    r.push(fs[g.below(6)]);
    Json m = Json::array();
    m.push("mul");
    Json q = Json::array();
    q.push("rat");
    q.push((long long)g.range(-11, 23));
    q.push(12);
    m.push(q);
    Json pi = Json::array();
    pi.push("const");
    pi.push("pi");
    m.push(pi);
    if (g.chance(1, 3)) { // plus a symbol: goes through the pi-shift code
        Json a = Json::array();
        a.push("add");
        a.push(m);
        Json s = Json::array();
        s.push("sym");
        s.push((long long)g.below(3));
        a.push(s);
        r.push(a);
    } else
        r.push(m);
    return r;
}

Json inverse_special(Rng &g)
{
    static const char *fs[] = {"asin", "acos", "atan", "acot", "asec", "acsc"};
    Json r = Json::array();
    r.push(fs[g.below(6)]);
    Json v = Json::array();
    switch (g.below(4)) {
        case 0:
            v.push("rat");
            v.push(1);
            v.push(2);
            break;
        case 1:
            v.push("div");
            v.push(Json::array());
            v.a[1].push("sqrt");
            v.a[1].push(Json(3));
            v.push(Json(2));
            break;
        case 2:
            v.push("int");
            v.push(1);
            break;
        default:
            v.push("sqrt");
            v.push(Json(2));
    }
    r.push(v);
    return r;
}

// replace the last symbol / integer leaf of a recipe by a different one
bool change_last_leaf(Json &r)
{
    if (r.type != Json::Array || r.size() == 0 || r[0].type != Json::String)
        return false;
    if ((r[0].s == "sym" || r[0].s == "int") && r.size() >= 2) {
        r.a[1] = Json((long long)(r[1].as_int() + 1));
        return true;
    }
    if (r[0].s == "ref" || r[0].s == "const" || r[0].s == "rat" || r[0].s == "cplx")
        return false;
    for (size_t k = r.size(); k-- > 1;)
        if (change_last_leaf(r.a[k]))
            return true;
    return false;
}

Json gen_op(Rng &g, unsigned nshared)
{
    Json o = Json::object();
    static const char *kinds[] = {"hash", "eq",  "cmp",  "str",   "diff", "subs",
                                  "expand", "add", "mul", "pow",  "sub",  "div",
                                  "fn",   "copy", "dummy", "local", "hash", "str",
                                  "eq",   "add",  "mul",  "args", "has",  "evalf",
                                  "xreplace", "free_symbols", "locked", "expand_pow",
                                  "expand_pow"};
    std::string k = kinds[g.below(sizeof kinds / sizeof kinds[0])];
    o["op"] = k;
    // operands: mostly shared expressions, sometimes earlier local results
    auto operand = [&]() -> long long {
        return g.chance(3, 4) ? (long long)g.below(nshared)
                              : (long long)(nshared + g.below(8));
    };
    o["a"] = operand();
    o["b"] = operand();
    if (k == "diff" || k == "subs" || k == "has" || k == "xreplace")
        o["v"] = (long long)g.below(4);
    if (k == "pow")
        o["n"] = (long long)g.range(-2, 4);
    if (k == "expand_pow") // expand((a + b + ...)^n): multinomial expansion
        o["n"] = (long long)g.range(2, 7);
    if (k == "fn") {
        static const char *fs[] = {"sin", "cos", "tan", "exp", "log", "abs", "sqrt",
                                   "asin", "atan", "sinh", "gamma", "sign", "cosh"};
        // (conjugate is left out: conjugate(zoo*x) makes an invalid downcast
        // inside the constructor whatever the schedule - not a C41 matter)
        o["f"] = fs[g.below(13)];
    }
    if (k == "copy")
        o["n"] = (long long)(1 + g.below(12));
    if (k == "dummy") // sometimes a long burst: indices far beyond the first few
        o["n"] = (long long)(g.chance(1, 12) ? 66000 + g.below(3000) : (g.chance(1, 4) ? 1 + g.below(300) : 1));
    if (k == "local") {
        simx::Profile p = shared_profile();
        o["e"] = g.chance(1, 3) ? special_angle(g)
                                : (g.chance(1, 4) ? inverse_special(g)
                                                  : simx::rnum(g, p, 2, nshared));
    }
    return o;
}

Json gen(uint64_t seed, const std::string &tier)
{
    Rng g(seed);
    bool thorough = tier == "thorough";
    Json plan = Json::object();
    simx::Profile p = shared_profile();
    unsigned nshared = 3 + (unsigned)g.below(6);
    Json shared = Json::array();
    for (unsigned i = 0; i < nshared; i++) {
        switch (g.below(6)) {
            case 0:
                shared.push(special_angle(g));
                break;
            case 1:
                shared.push(inverse_special(g));
                break;
            default:
                shared.push(simx::rnum(g, p, 1 + (int)g.below(3), i));
        }
    }
    // siblings: the same recipe with one leaf changed, placed right after the
    // original, so that eq / __cmp__ between the two walk both trees to the
    // end instead of stopping at the first cheap difference
    std::vector<std::pair<unsigned, unsigned>> sib;
    if (g.chance(1, 2)) {
        unsigned ns = 1 + (unsigned)g.below(2);
        for (unsigned i = 0; i < ns && shared.size() < 10; i++) {
            unsigned k = (unsigned)g.below(nshared);
            Json twin = shared[k];
            if (!change_last_leaf(twin))
                continue;
            sib.emplace_back(k, (unsigned)shared.size());
            shared.push(twin);
        }
        nshared = (unsigned)shared.size();
    }
    plan["shared"] = shared;
    unsigned nthreads = 2 + (unsigned)g.below(MAXTHREADS - 1);
    Json threads = Json::array();
    for (unsigned t = 0; t < nthreads; t++) {
        Json th = Json::object();
        Json ops = Json::array();
        unsigned nops = 3 + (unsigned)g.below(thorough ? 14 : 10);
        // some runs: every thread starts with the same op on the same shared
        // node (maximal contention on one hash_ / refcount_)
        for (unsigned k = 0; k < nops; k++)
            ops.push(gen_op(g, nshared));
        th["ops"] = ops;
        threads.push(th);
    }
    if (g.chance(1, 3)) {
        // every thread starts by evaluating a special angle / inverse value:
        // in a fresh process they meet in the lazily built static tables
        Json o = Json::object();
        o["op"] = "local";
        o["a"] = 0;
        o["b"] = 0;
        o["e"] = g.chance(2, 3) ? special_angle(g) : inverse_special(g);
        for (unsigned t = 0; t < nthreads; t++)
            threads.a[t]["ops"].a.insert(threads.a[t]["ops"].a.begin(), o);
    }
    if (g.chance(1, 3)) {
        Json o = Json::object();
        o["op"] = g.chance(1, 2) ? "hash" : "str";
        o["a"] = (long long)g.below(nshared);
        o["b"] = 0;
        for (unsigned t = 0; t < nthreads; t++)
            threads.a[t]["ops"].a.insert(threads.a[t]["ops"].a.begin(), o);
    }
    for (auto &pr : sib) {
        // several threads compare the original with its sibling
        for (unsigned t = 0; t < nthreads; t++) {
            if (!g.chance(2, 3))
                continue;
            Json o = Json::object();
            o["op"] = g.chance(2, 3) ? "cmp" : "eq";
            o["a"] = (long long)(g.chance(1, 2) ? pr.first : pr.second);
            o["b"] = (long long)(o["a"].as_int() == (long long)pr.first ? pr.second : pr.first);
            auto &v = threads.a[t]["ops"].a;
            v.insert(v.begin() + (long)g.below(v.size() + 1), o);
        }
    }
    // hand-off objects: owned by the worker threads alone (the main thread
    // gives every thread one reference and drops its own), released by them
    // through reset(), assignment or destruction: each must die exactly once
    unsigned nhand = g.chance(1, 2) ? 1 + (unsigned)g.below(3) : 0;
    plan["handoff"] = nhand;
    for (unsigned h = 0; h < nhand; h++)
        for (unsigned t = 0; t < nthreads; t++) {
            Json o = Json::object();
            o["op"] = "drop";
            o["h"] = h;
            static const char *how[] = {"reset", "assign", "destroy", "assign_shared"};
            o["how"] = how[g.below(4)];
            o["a"] = (long long)g.below(nshared);
            o["b"] = 0;
            auto &v = threads.a[t]["ops"].a;
            // late in the list, so that the releases of different threads meet
            size_t lo = v.size() * 2 / 3;
            v.insert(v.begin() + (long)(lo + g.below(v.size() - lo + 1)), o);
        }
    if (g.chance(1, 5)) {
        // every thread passes through the harness's locked section early on
        Json o = Json::object();
        o["op"] = "locked";
        o["a"] = (long long)g.below(nshared);
        o["b"] = (long long)g.below(nshared);
        for (unsigned t = 0; t < nthreads; t++) {
            auto &v = threads.a[t]["ops"].a;
            v.insert(v.begin() + (long)g.below(std::min<size_t>(3, v.size() + 1)), o);
            v.insert(v.begin() + (long)g.below(std::min<size_t>(4, v.size() + 1)), o);
        }
    }
    plan["threads"] = threads;
    // ---- scheduler swarm configuration
    Json sc = Json::object();
    unsigned mode = (unsigned)g.below(10);
    sc["seed"] = (long long)(g.next() >> 2);
    if (mode < 6) {
        sc["mode"] = "random";
        static const unsigned dens[] = {2, 4, 8, 16, 32, 64, 128};
        sc["den"] = dens[g.below(7)];
        Json num = Json::array();
        // refcount rmw, hash load/store, guards, hooks, between ops
        num.push((long long)(g.chance(1, 4) ? 0 : 1));
        num.push((long long)(1 + g.below(8)));
        num.push((long long)(1 + g.below(16)));
        num.push(1);
        num.push((long long)(1 + g.below(16)));
        sc["num"] = num;
    } else if (mode < 9) {
        sc["mode"] = "pct";
        Json pts = Json::array();
        unsigned d = 1 + (unsigned)g.below(4);
        std::vector<uint64_t> v;
        for (unsigned i = 0; i < d; i++)
            v.push_back(1 + g.below(g.chance(1, 2) ? 400 : 20000));
        std::sort(v.begin(), v.end());
        for (auto x : v)
            pts.push((long long)x);
        sc["pct_points"] = pts;
    } else {
        sc["mode"] = "random";
        sc["den"] = 1; // switch at every yield of the enabled kinds
        Json num = Json::array();
        num.push(0);
        num.push(1);
        num.push(1);
        num.push(0);
        num.push(1);
        sc["num"] = num;
    }
    plan["sched"] = sc;
    plan["switches"] = Json::array(); // filled in by minimisation (explicit mode)
    return plan;
}

// ---------------------------------------------------------------------------
struct ThreadOut {
    std::vector<std::string> results;
    std::vector<size_t> dummy_index;
    std::vector<RCP<const Basic>> hand; // this thread's references to the hand-off objects
};

std::mutex g_box_mutex;
std::vector<RCP<const Basic>> g_box; // guarded by g_box_mutex

// a library object whose destruction the harness can count
std::atomic<int> g_tracked_dtors{0};
class Tracked : public Symbol
{
public:
    explicit Tracked(const std::string &n) : Symbol(n) {}
    ~Tracked() override
    {
        g_tracked_dtors.fetch_add(1);
    }
};

RCP<const Basic> operand(const simx::Pool &shared, const simx::Pool &local, int64_t k)
{
    size_t ns = shared.size();
    if (k < 0)
        k = -k;
    if ((size_t)k < ns || local.empty())
        return shared[(size_t)k % ns];
    return local[((size_t)k - ns) % local.size()];
}

// A Dummy carries a process-wide index that enters hashes, hence term
// order in printed forms: anything computed from one cannot be compared with
// another run. Such results are replaced by a marker in both runs.
bool has_dummy(const Basic &b)
{
    if (is_a<Dummy>(b))
        return true;
    for (auto &x : b.get_args())
        if (has_dummy(*x))
            return true;
    return false;
}

std::string do_op_raw(const Json &o, const simx::Pool &shared, simx::Pool &local,
                      ThreadOut &out, bool &tainted);

std::string do_op(const Json &o, const simx::Pool &shared, simx::Pool &local,
                  ThreadOut &out)
{
    bool tainted = false;
    std::string r = do_op_raw(o, shared, local, out, tainted);
    return tainted ? o.gets("op") + ":dummy-dependent" : r;
}

std::string do_op_raw(const Json &o, const simx::Pool &shared, simx::Pool &local,
                      ThreadOut &out, bool &tainted)
{
    std::string k = o.gets("op");
    RCP<const Basic> a = operand(shared, local, o.geti("a"));
    RCP<const Basic> b = operand(shared, local, o.geti("b"));
    RCP<const Basic> r;
    tainted = has_dummy(*a) || has_dummy(*b);
    if (k == "hash")
        return "hash:" + std::to_string((unsigned long long)a->hash());
    if (k == "eq")
        return std::string("eq:") + (eq(*a, *b) ? "1" : "0");
    if (k == "cmp") {
        int c = a->__cmp__(*b), d = b->__cmp__(*a);
        return "cmp:" + std::to_string(c) + "," + std::to_string(d);
    }
    if (k == "str")
        return "str:" + a->__str__();
    if (k == "args") {
        std::string s = "args:";
        for (auto &x : a->get_args())
            s += std::to_string((unsigned long long)x->hash() % 1000) + ",";
        return s;
    }
    if (k == "has")
        return std::string("has:") + (has_symbol(*a, *simx::sym_n(o.geti("v"))) ? "1" : "0");
    if (k == "free_symbols") {
        std::string s = "fs:";
        for (auto &x : free_symbols(*a))
            s += x->__str__() + ",";
        return s;
    }
    if (k == "evalf") {
        try {
            double d = eval_double(*a);
            char buf[40];
            snprintf(buf, sizeof buf, "%.12g", d);
            return std::string("evalf:") + buf;
        } catch (const SymEngineException &) {
            return "evalf:symbolic";
        }
    }
    if (k == "dummy") {
        int64_t n = std::max<int64_t>(1, std::min<int64_t>(70000, o.geti("n", 1)));
        RCP<const Dummy> d;
        for (int64_t i = 0; i < n; i++) {
            d = dummy("w");
            out.dummy_index.push_back(d->get_index());
        }
        local.push_back(add(d, a));
        tainted = true;
        return "dummy";
    }
    if (k == "drop") {
        size_t h = (size_t)o.geti("h");
        if (h >= out.hand.size() || out.hand[h].is_null())
            return "drop:none";
        std::string how = o.gets("how");
        if (how == "reset")
            out.hand[h].reset();
        else if (how == "assign")
            out.hand[h] = RCP<const Basic>(); // copy assignment from a null RCP
        else if (how == "assign_shared")
            out.hand[h] = a; // copy assignment: releases the old pointee
        else {
            std::vector<RCP<const Basic>> v;
            v.push_back(std::move(out.hand[h]));
            out.hand[h] = RCP<const Basic>();
        } // destructor of the moved-to element
        return "drop:" + how;
    }
    if (k == "locked") {
        // a correctly locked section of the harness with reference-count
        // traffic inside: keeps the scheduler's handling of blocking locks
        // exercised (a thread descheduled inside the section, others arriving)
        std::lock_guard<std::mutex> lock(g_box_mutex);
        g_box.push_back(a);
        g_box.push_back(b);
        if (g_box.size() > 6)
            g_box.erase(g_box.begin(), g_box.begin() + 2);
        return "locked";
    }
    if (k == "copy") {
        // copy and drop references to shared nodes in and out of containers
        std::vector<RCP<const Basic>> v;
        int n = (int)o.geti("n", 1);
        for (int i = 0; i < n; i++)
            v.push_back(i % 2 ? a : b);
        set_basic s(v.begin(), v.end());
        vec_basic args = a->get_args();
        v.insert(v.end(), args.begin(), args.end());
        v.resize(v.size() / 2);
        return "copy:" + std::to_string(s.size()) + "," + std::to_string(v.size());
    }
    if (k == "diff")
        r = a->diff(simx::sym_n(o.geti("v")));
    else if (k == "subs") {
        map_basic_basic d;
        d[simx::sym_n(o.geti("v"))] = b;
        r = a->subs(d);
    } else if (k == "xreplace") {
        map_basic_basic d;
        d[simx::sym_n(o.geti("v"))] = b;
        r = xreplace(a, d);
    } else if (k == "expand")
        r = expand(a);
    else if (k == "expand_pow") {
        // a sum of a few distinct terms raised to a small power, expanded:
        // every (number of terms, exponent) pair goes through pow_expand
        // (symbols and at most one small shared operand: the expansion of a
        // power of an arbitrary shared expression grows without bound)
        size_t nt = 2 + (size_t)(o.geti("a") % 4);
        vec_basic terms;
        for (size_t i = 0; i < nt; i++)
            terms.push_back(simx::sym_n((int64_t)i + o.geti("b") % 3));
        if (is_a<Symbol>(*a) || is_a_Number(*a) || is_a<Sin>(*a) || is_a<Cos>(*a))
            terms.push_back(a);
        else
            terms.push_back(integer(1));
        long n = (long)std::max<int64_t>(2, std::min<int64_t>(6, o.geti("n", 2)));
        if (nt >= 5)
            n = std::min<long>(n, 4);
        r = expand(pow(add(terms), integer(n)));
    } else if (k == "add")
        r = add(a, b);
    else if (k == "mul")
        r = mul(a, b);
    else if (k == "sub")
        r = sub(a, b);
    else if (k == "div")
        r = div(a, b);
    else if (k == "pow")
        r = pow(a, integer((long)o.geti("n", 2)));
    else if (k == "fn") {
        auto &t = simx::unary_table();
        auto it = t.find(o.gets("f", "sin"));
        r = it == t.end() ? a : it->second(a);
    } else if (k == "local") {
        r = simx::build(o.at("e"), shared);
    } else
        return "noop";
    local.push_back(r);
    return k + ":" + r->__str__();
}

void run_ops(const Json &ops, const simx::Pool &shared, ThreadOut &out, bool scheduled)
{
    simx::Pool local;
    for (size_t k = 0; k < ops.size(); k++) {
        if (scheduled)
            simsched::yield(simsched::K_OP, nullptr);
        std::string r;
        try {
            r = do_op(ops[k], shared, local, out);
        } catch (const SymEngineException &e) {
            r = std::string("exception:") + e.what();
        } catch (const simx::BuildError &e) {
            r = std::string("unbuildable:") + e.what();
        }
        if (scheduled) {
            char buf[64];
            snprintf(buf, sizeof buf, "op %zu -> %016llx", k,
                     (unsigned long long)fnv1a(r.data(), r.size()));
            simsched::log_event(buf);
        }
        out.results.push_back(std::move(r));
    }
    // local results are dropped here, still under the schedule
}

void worker_main(int id, const Json *ops, const simx::Pool *shared, ThreadOut *out)
{
    simsched::worker_enter(id);
    run_ops(*ops, *shared, *out, true);
    simsched::worker_exit(id);
}

simx::Pool build_shared(const Json &recipes, Run *run)
{
    simx::Pool pool;
    for (size_t i = 0; i < recipes.size(); i++) {
        try {
            pool.push_back(simx::build(recipes[i], pool));
        } catch (const SymEngineException &) {
            pool.push_back(add(simx::sym_n((int64_t)i), integer((long)i + 2)));
            if (run)
                run->probe("recipe_unbuildable");
        } catch (const simx::BuildError &) {
            pool.push_back(add(simx::sym_n((int64_t)i), integer((long)i + 2)));
            if (run)
                run->probe("recipe_unbuildable");
        }
    }
    if (pool.empty())
        pool.push_back(add(simx::sym_n(0), integer(1)));
    return pool;
}

void warm_harness()
{
    // harness-side statics only (recipe tables); library statics stay cold
    (void)simx::unary_table().size();
    (void)simx::binary_table().size();
}

void exec(Run &run)
{
    const Json &threads = run.plan.at("threads");
    int nthreads = (int)threads.size();
    if (nthreads < 1) {
        run.ev("no threads");
        return;
    }
    if (nthreads > MAXTHREADS)
        nthreads = MAXTHREADS;
    simx::Pool shared = build_shared(run.plan.at("shared"), &run);
    std::vector<unsigned> before;
    for (auto &e : shared)
        before.push_back(e->use_count());

    simsched::Config cfg;
    const Json &sc = run.plan.at("sched");
    cfg.seed = (uint64_t)sc.geti("seed", 1);
    std::string mode = sc.gets("mode", "random");
    const Json &sw = run.plan.at("switches");
    if (sc.at("explicit").as_bool()) {
        cfg.explicit_mode = true;
        for (size_t i = 0; i < sw.size(); i++)
            if (sw[i].size() >= 2)
                cfg.switches.emplace_back((uint64_t)sw[i][0].as_int(),
                                          (int)sw[i][1].as_int());
        std::sort(cfg.switches.begin(), cfg.switches.end());
    } else if (mode == "pct") {
        cfg.pct_mode = true;
        const Json &pts = sc.at("pct_points");
        for (size_t i = 0; i < pts.size(); i++)
            cfg.pct_points.push_back((uint64_t)pts[i].as_int());
        std::sort(cfg.pct_points.begin(), cfg.pct_points.end());
    } else {
        cfg.den = (unsigned)std::max<int64_t>(1, sc.geti("den", 16));
        const Json &num = sc.at("num");
        for (size_t i = 0; i < num.size() && i < (size_t)simsched::K_NKINDS; i++)
            cfg.num[i] = (unsigned)num[i].as_int();
    }
    std::vector<ThreadOut> outs((size_t)nthreads);
    int nhand = (int)std::min<int64_t>(4, std::max<int64_t>(0, run.plan.geti("handoff")));
    g_tracked_dtors.store(0);
    for (int h = 0; h < nhand; h++) {
        RCP<const Basic> obj = make_rcp<const Tracked>("handoff" + std::to_string(h));
        for (auto &o : outs)
            o.hand.push_back(obj);
    } // the main thread's reference is gone: the workers are the only owners
    simsched::begin(nthreads, cfg);
    std::vector<std::thread> ths;
    for (int t = 0; t < nthreads; t++)
        ths.emplace_back(worker_main, t, &threads[(size_t)t].at("ops"), &shared,
                         &outs[(size_t)t]);
    bool ok = simsched::run_all();
    for (auto &t : ths)
        t.join();
    simsched::end();
    const simsched::Stats &st = simsched::stats();
    for (auto &line : simsched::take_events())
        run.ev(line);
    run.steps = st.yields;
    run.count("yields", st.yields);
    run.count("context_switches", st.switches);
    run.count("yields_refcount", st.yields_by_kind[simsched::K_ATOMIC32_RMW]);
    run.count("yields_hash", st.yields_by_kind[simsched::K_ATOMIC64]);
    run.count("yields_guard", st.yields_by_kind[simsched::K_GUARD]);
    run.count("yields_hook", st.yields_by_kind[simsched::K_HOOK]);
    if (st.guard_contended)
        run.probe("static_initialiser_contended");
    if (st.lock_blocks)
        run.count("probe.lock_held_by_parked_thread", st.lock_blocks);
    if (st.spin_switches)
        run.count("probe.spinning_thread_descheduled", st.spin_switches);
    run.fault(std::string("sched_") + (cfg.explicit_mode ? "explicit" : mode));
    if (st.switches)
        run.fault("context_switch_injected");
    run.state(st.switch_hash);
    if (!ok) {
        run.fail("liveness", "scheduler reported deadlock or step cap");
        return;
    }
    for (auto &o : outs)
        o.hand.clear(); // hand-off references a thread did not release itself
    g_box.clear();
    // ---- conservation of reference counts
    for (size_t i = 0; i < shared.size(); i++) {
        // atoms may be the library's global singletons (zero, one, pi, ...),
        // which lazily built static tables legitimately keep references to
        if (is_a_Number(*shared[i]) || is_a<Constant>(*shared[i])
            || is_a<BooleanAtom>(*shared[i]) || is_a<Symbol>(*shared[i]))
            continue;
        run.probe("refcount_conservation_checked");
        unsigned now = shared[i]->use_count();
        if (now != before[i]) {
            run.fail("refcount-not-conserved",
                     "shared expression #" + std::to_string(i) + " had use_count "
                         + std::to_string(before[i]) + " before the threads ran and "
                         + std::to_string(now) + " after they were joined");
            return;
        }
    }
    // ---- hand-off objects: every one destroyed exactly once
    if (nhand) {
        run.probe("handoff_objects_released_by_workers");
        int d = g_tracked_dtors.load();
        if (d != nhand) {
            run.fail("handoff-object-not-destroyed-exactly-once",
                     std::to_string(nhand) + " objects owned by the worker threads alone were destroyed "
                         + std::to_string(d) + " times in total");
            return;
        }
    }
    // ---- Dummy indices unique across threads
    {
        std::set<size_t> seen;
        for (auto &o : outs)
            for (auto d : o.dummy_index)
                if (!seen.insert(d).second) {
                    run.fail("dummy-index-collision",
                             "two Dummy symbols got the same index " + std::to_string(d));
                    return;
                }
        if (seen.size() > 65536)
            run.probe("more_than_65536_dummies_in_one_run");
        if (seen.size() >= 2)
            run.probe("dummies_created_concurrently");
    }
    // ---- sequential reference on freshly rebuilt expressions
    simx::Pool fresh = build_shared(run.plan.at("shared"), nullptr);
    unsigned compared = 0;
    for (int t = 0; t < nthreads; t++) {
        ThreadOut ref;
        for (int h = 0; h < nhand; h++)
            ref.hand.push_back(make_rcp<const Tracked>("handoff" + std::to_string(h)));
        run_ops(threads[(size_t)t].at("ops"), fresh, ref, false);
        const auto &got = outs[(size_t)t].results;
        if (got.size() != ref.results.size()) {
            run.fail("results-missing", "thread " + std::to_string(t) + " produced "
                                            + std::to_string(got.size()) + " results, "
                                            + std::to_string(ref.results.size())
                                            + " expected");
            return;
        }
        for (size_t k = 0; k < got.size(); k++) {
            if (got[k].find(":dummy-dependent") != std::string::npos
                && got[k] == ref.results[k])
                continue;
            compared++;
            if (got[k] != ref.results[k]) {
                run.fail("differs-from-sequential:"
                             + threads[(size_t)t].at("ops")[k].gets("op"),
                         "thread " + std::to_string(t) + " op " + std::to_string(k)
                             + " (" + threads[(size_t)t].at("ops")[k].dump()
                             + ") returned [" + got[k].substr(0, 300)
                             + "], a sequential run returns ["
                             + ref.results[k].substr(0, 300) + "]");
                return;
            }
        }
    }
    g_box.clear();
    run.count("results_compared", compared);
    run.nontrivial = st.switches >= 2 && compared >= 4;
}

} // namespace

int main(int argc, char **argv)
{
    Check c = {"C41", 41, gen, exec, warm_harness};
    return harness_main(argc, argv, c);
}
