// See sched.h. NOT compiled with -fsanitize=thread (on purpose).
#include "sched.h"
#include "rng.h"
#include <atomic>
#include <climits>
#include <cstdio>
#include <cstdlib>
#include <linux/futex.h>
#include <cstring>
#include <sys/syscall.h>
#include <unistd.h>

namespace simsched
{
namespace
{
const int MAXT = 16;
enum St { NEW = 0, RUNNABLE, BLOCKED, DONE };

struct T {
    std::atomic<uint32_t> go{0};
    St st = NEW;
    const void *waiting = nullptr;
    int prio = 0;
    const void *spin_addr = nullptr; // consecutive yields at one address
    unsigned spin_count = 0;
};
const unsigned SPIN_LIMIT = 256;

T threads[MAXT];
int nthreads = 0;
int current = -1;
bool sim_active = false;
Config cfg;
Stats st;
sim::Rng rng(1);
size_t next_switch = 0, next_pct = 0;
// State touched by several threads (always by the token holder only) lives in
// plain arrays: an STL container here would share its inline template code
// with ThreadSanitizer-instrumented translation units at link time, and the
// scheduler's own hand-over would then be reported as a race.
const int MAXGUARD = 256;
const void *guard_addr[MAXGUARD];
int guard_own[MAXGUARD];
int nguards = 0;
char *ev_buf = nullptr; // events, '\n'-separated
size_t ev_len = 0, ev_cap = 0;
uint64_t *real_y = nullptr; // realised switches
int *real_t = nullptr;
size_t real_n = 0, real_cap = 0;
uint64_t *sw_y = nullptr; // explicit switch list / pct points (copied in begin)
int *sw_t = nullptr;
size_t sw_n = 0;
uint64_t *pct_y = nullptr;
size_t pct_n = 0;

// buffers are allocated once per process by the main thread and never
// reallocated or freed: ThreadSanitizer intercepts malloc/free/memcpy even
// from uninstrumented code and would see the hand-over of a block as a race
const size_t EV_CAP = 16u << 20;
const size_t REAL_CAP = 1u << 20;
bool ev_truncated = false;

void ev_add(const char *line)
{
    size_t n = strlen(line);
    if (!ev_buf || ev_len + n + 2 > ev_cap) {
        ev_truncated = true; // deterministic: depends only on the run itself
        return;
    }
    volatile char *dst = ev_buf + ev_len;
    for (size_t i = 0; i < n; i++)
        dst[i] = line[i];
    ev_len += n;
    ev_buf[ev_len++] = '\n';
}
int guard_find(const void *g)
{
    for (int i = 0; i < nguards; i++)
        if (guard_addr[i] == g)
            return i;
    return -1;
}
std::atomic<uint32_t> main_go{0};
std::atomic<uint32_t> parked{0};
thread_local int tl_id = -1;

void fwait(std::atomic<uint32_t> *a, uint32_t val)
{
    syscall(SYS_futex, (uint32_t *)a, FUTEX_WAIT_PRIVATE, val, nullptr, nullptr, 0);
}
void fwake(std::atomic<uint32_t> *a)
{
    syscall(SYS_futex, (uint32_t *)a, FUTEX_WAKE_PRIVATE, INT_MAX, nullptr, nullptr,
            0);
}
void park_self(int id)
{
    T &t = threads[id];
    while (t.go.load(std::memory_order_acquire) == 0)
        fwait(&t.go, 0);
    t.go.store(0, std::memory_order_relaxed);
}
void wake(int id)
{
    threads[id].go.store(1, std::memory_order_release);
    fwake(&threads[id].go);
}
void wake_main()
{
    main_go.store(1, std::memory_order_release);
    fwake(&main_go);
}

int pick_runnable(int except)
{
    int cand[MAXT], n = 0;
    for (int i = 0; i < nthreads; i++)
        if (i != except && threads[i].st == RUNNABLE)
            cand[n++] = i;
    if (n == 0)
        return -1;
    if (cfg.explicit_mode)
        return cand[0];
    if (cfg.pct_mode) {
        int best = cand[0];
        for (int i = 1; i < n; i++)
            if (threads[cand[i]].prio > threads[best].prio)
                best = cand[i];
        return best;
    }
    return cand[rng.below((uint64_t)n)];
}

void note_switch(int from, int to, int kind)
{
    st.switches++;
    uint64_t rec[2] = {st.yields, (uint64_t)to};
    st.switch_hash = sim::fnv1a(rec, sizeof rec, st.switch_hash);
    if (real_n < real_cap) {
        real_y[real_n] = st.yields;
        real_t[real_n++] = to;
    }
    char buf[96];
    snprintf(buf, sizeof buf, "sw y=%llu k=%d %d>%d", (unsigned long long)st.yields,
             kind, from, to);
    ev_add(buf);
}

// hand the token from `self` (which keeps running later, or is blocked /
// done) to `to`, and park self unless it is done
void switch_to(int self, int to, int kind, bool park)
{
    note_switch(self, to, kind);
    current = to;
    wake(to);
    if (park)
        park_self(self);
}

[[noreturn]] void fatal(const char *what, int code)
{
    fprintf(stderr, "SIM-SCHEDULER: %s\n", what);
    fflush(stderr);
    _exit(code);
}
} // namespace

void begin(int n, const Config &c)
{
    if (n > MAXT)
        n = MAXT;
    nthreads = n;
    cfg = c;
    st = Stats();
    rng.reseed(c.seed);
    next_switch = 0;
    next_pct = 0;
    nguards = 0;
    if (!ev_buf) {
        ev_buf = (char *)malloc(EV_CAP);
        ev_cap = EV_CAP;
        real_y = (uint64_t *)malloc(REAL_CAP * sizeof(uint64_t));
        real_t = (int *)malloc(REAL_CAP * sizeof(int));
        real_cap = REAL_CAP;
    }
    ev_len = 0;
    ev_truncated = false;
    real_n = 0;
    // (old switch lists are leaked on purpose, see above; they are tiny)
    sw_n = c.switches.size();
    sw_y = (uint64_t *)malloc((sw_n + 1) * sizeof(uint64_t));
    sw_t = (int *)malloc((sw_n + 1) * sizeof(int));
    for (size_t i = 0; i < sw_n; i++) {
        sw_y[i] = c.switches[i].first;
        sw_t[i] = c.switches[i].second;
    }
    pct_n = c.pct_points.size();
    pct_y = (uint64_t *)malloc((pct_n + 1) * sizeof(uint64_t));
    for (size_t i = 0; i < pct_n; i++)
        pct_y[i] = c.pct_points[i];
    cfg.switches.clear();
    cfg.pct_points.clear();
    for (int i = 0; i < MAXT; i++) {
        threads[i].go.store(0);
        threads[i].st = NEW;
        threads[i].waiting = nullptr;
        threads[i].prio = 0;
        threads[i].spin_addr = nullptr;
        threads[i].spin_count = 0;
    }
    if (cfg.pct_mode) // random distinct priorities
        for (int i = 0; i < n; i++)
            threads[i].prio = 1000 + (int)rng.below(1000) * 16 + i;
    main_go.store(0);
    parked.store(0);
    current = -1;
    sim_active = true;
}

void worker_enter(int id)
{
    tl_id = id;
    threads[id].st = RUNNABLE;
    parked.fetch_add(1, std::memory_order_acq_rel);
    fwake(&parked);
    park_self(id);
}

bool run_all()
{
    // wait until every worker is parked at its start line
    for (;;) {
        uint32_t p = parked.load(std::memory_order_acquire);
        if ((int)p >= nthreads)
            break;
        fwait(&parked, p);
    }
    int first = pick_runnable(-1);
    if (first < 0)
        return true;
    current = first;
    {
        char buf[64];
        snprintf(buf, sizeof buf, "start t%d", first);
        ev_add(buf);
    }
    wake(first);
    while (main_go.load(std::memory_order_acquire) == 0)
        fwait(&main_go, 0);
    return !st.deadlock && !st.step_cap_hit;
}

void end()
{
    sim_active = false;
    current = -1;
}

const Stats &stats()
{
    return st;
}
std::vector<std::string> take_events()
{
    std::vector<std::string> out;
    size_t b = 0;
    for (size_t i = 0; i < ev_len; i++)
        if (ev_buf[i] == '\n') {
            out.emplace_back(ev_buf + b, i - b);
            b = i + 1;
        }
    ev_len = 0;
    return out;
}
std::vector<std::pair<uint64_t, int>> realised_switches()
{
    std::vector<std::pair<uint64_t, int>> out;
    for (size_t i = 0; i < real_n; i++)
        out.emplace_back(real_y[i], real_t[i]);
    return out;
}

bool active_worker()
{
    return sim_active && tl_id >= 0 && tl_id == current;
}

void log_event(const std::string &line)
{
    if (active_worker()) {
        char buf[256];
        snprintf(buf, sizeof buf, "t%d %s", tl_id, line.c_str());
        ev_add(buf);
    }
}

void yield(int kind, const void *addr)
{
    (void)addr;
    if (!active_worker())
        return;
    int self = tl_id;
    st.yields++;
    st.yields_by_kind[kind < K_NKINDS ? kind : 0]++;
    if (st.yields > cfg.step_cap) {
        st.step_cap_hit = true;
        fatal("step cap exceeded (livelock?)", 79);
    }
    int to = -1;
    // fairness for busy waiting: a thread that keeps touching one address
    // (a spin lock, a "wait until the other thread has published" loop) can
    // only make progress if somebody else runs; after SPIN_LIMIT consecutive
    // yields at the same address the token goes to another runnable thread,
    // whatever the strategy (a function of the execution, not of the PRNG
    // stream position: replays take the same forced switches)
    bool forced = false;
    if (addr != nullptr && addr == threads[self].spin_addr) {
        if (++threads[self].spin_count >= SPIN_LIMIT) {
            threads[self].spin_count = 0;
            forced = true;
        }
    } else {
        threads[self].spin_addr = addr;
        threads[self].spin_count = 0;
    }
    if (forced) {
        int cand = -1;
        for (int i = 1; i <= nthreads; i++) {
            int t = (self + i) % nthreads;
            if (t != self && threads[t].st == RUNNABLE) {
                cand = t;
                break;
            }
        }
        if (cand >= 0) {
            st.spin_switches++;
            // keep the explicit list in step: an entry for this very yield is consumed
            while (cfg.explicit_mode && next_switch < sw_n && sw_y[next_switch] <= st.yields)
                next_switch++;
            switch_to(self, cand, kind, true);
            return;
        }
    }
    if (cfg.explicit_mode) {
        while (next_switch < sw_n && sw_y[next_switch] < st.yields)
            next_switch++;
        if (next_switch < sw_n && sw_y[next_switch] == st.yields) {
            int t = sw_t[next_switch];
            next_switch++;
            if (t >= 0 && t < nthreads && t != self && threads[t].st == RUNNABLE)
                to = t;
        }
    } else if (cfg.pct_mode) {
        if (next_pct < pct_n && pct_y[next_pct] <= st.yields) {
            next_pct++;
            threads[self].prio = (int)next_pct; // below every initial priority
            int t = pick_runnable(self);
            if (t >= 0 && threads[t].prio > threads[self].prio)
                to = t;
        }
    } else {
        unsigned num = cfg.num[kind < K_NKINDS ? kind : 0];
        if (num && rng.below(cfg.den) < num)
            to = pick_runnable(self);
    }
    if (to >= 0)
        switch_to(self, to, kind, true);
}

void worker_exit(int id)
{
    if (!sim_active || tl_id != id)
        return;
    threads[id].st = DONE;
    tl_id = -1;
    int to = pick_runnable(id);
    if (to >= 0) {
        switch_to(id, to, K_OP, false);
        return;
    }
    for (int i = 0; i < nthreads; i++)
        if (threads[i].st == BLOCKED)
            st.deadlock = true;
    if (st.deadlock)
        fatal("deadlock: every remaining thread waits for a static initialiser or a lock", 78);
    current = -1;
    wake_main();
}

void guard_before_acquire(const void *g, bool complete)
{
    if (!active_worker())
        return;
    yield(K_GUARD, g);
    if (complete)
        return;
    int self = tl_id;
    for (;;) {
        int gi = guard_find(g);
        if (gi < 0 || guard_own[gi] == self)
            return;
        // initialisation in progress in a parked thread: really blocking here
        // would stop the world, so deschedule until the owner is done
        st.guard_contended++;
        st.guard_blocks++;
        threads[self].st = BLOCKED;
        threads[self].waiting = g;
        int to = pick_runnable(self);
        if (to < 0) {
            st.deadlock = true;
            fatal("deadlock: every thread waits for a static initialiser", 78);
        }
        {
            char buf[64];
            snprintf(buf, sizeof buf, "t%d blocks on a static guard", self);
            ev_add(buf);
        }
        switch_to(self, to, K_GUARD, true);
    }
}

void block_on(const void *resource)
{
    if (!active_worker())
        return;
    int self = tl_id;
    st.lock_blocks++;
    threads[self].st = BLOCKED;
    threads[self].waiting = resource;
    int to = pick_runnable(self);
    if (to < 0) {
        st.deadlock = true;
        fatal("deadlock: every thread waits for a lock held by another waiting thread", 78);
    }
    {
        char buf[64];
        snprintf(buf, sizeof buf, "t%d blocks on a lock", self);
        ev_add(buf);
    }
    switch_to(self, to, K_GUARD, true);
}

void resource_released(const void *resource)
{
    if (!sim_active)
        return;
    for (int i = 0; i < nthreads; i++)
        if (threads[i].st == BLOCKED && threads[i].waiting == resource) {
            threads[i].st = RUNNABLE;
            threads[i].waiting = nullptr;
        }
}

void guard_acquired(const void *g)
{
    if (active_worker() && guard_find(g) < 0 && nguards < MAXGUARD) {
        guard_addr[nguards] = g;
        guard_own[nguards++] = tl_id;
    }
}

void guard_released(const void *g)
{
    if (!active_worker())
        return;
    int gi = guard_find(g);
    if (gi >= 0) {
        guard_addr[gi] = guard_addr[nguards - 1];
        guard_own[gi] = guard_own[nguards - 1];
        nguards--;
    }
    for (int i = 0; i < nthreads; i++)
        if (threads[i].st == BLOCKED && threads[i].waiting == g) {
            threads[i].st = RUNNABLE;
            threads[i].waiting = nullptr;
        }
}

} // namespace simsched
