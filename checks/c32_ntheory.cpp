// C32 (randomised / sieve-dependent functions): number-theoretic results must
// not depend on the random choices made inside (std::rand() -> mp_randstate)
// nor on what earlier calls left in the process-global prime sieve.
//
// Simulation: a seeded interleaving of (a) calls of the functions that draw
// random numbers (Pollard p-1 / rho, Tonelli-Shanks through nthroot_mod*,
// powermod*) or consult the sieve (factor*, prime_factors*, primepi, totient,
// carmichael, multiplicative_order, primitive_root*, mobius, mertens,
// is_*_residue), each replayed under several rand() seed lists, with (b)
// perturbations of the global sieve (clear, set_clear, set_sieve_size, a
// long-lived iterator stepped between calls, generate_primes). Oracle: brute
// force from the definitions; identical results across seed lists and across
// sieve states wherever the definition determines the result.
#include "../sim/harness.h"
#include "../sim/rand_seam.h"
#include "../sim/alloc_seam.h"
#include <symengine/ntheory.h>
#include <symengine/ntheory_funcs.h>
#include <symengine/symengine_exception.h>
#include <symengine/prime_sieve.h>
#include <symengine/integer.h>
#include <symengine/rational.h>
#include <algorithm>
#include <memory>
#include <numeric>
#include <gmp.h>

using namespace sim;
using namespace SymEngine;

SIM_SANITIZER_DEFAULTS()

namespace
{
typedef unsigned long long u64;
typedef __int128 i128;

u64 mulmod(u64 a, u64 b, u64 m)
{
    return (u64)((unsigned __int128)a * b % m);
}
u64 powmod(u64 a, u64 e, u64 m)
{
    u64 r = 1 % m;
    a %= m;
    while (e) {
        if (e & 1)
            r = mulmod(r, a, m);
        a = mulmod(a, a, m);
        e >>= 1;
    }
    return r;
}
u64 gcd64(u64 a, u64 b)
{
    while (b) {
        u64 t = a % b;
        a = b;
        b = t;
    }
    return a;
}
std::vector<std::pair<u64, unsigned>> factorise(u64 n)
{
    std::vector<std::pair<u64, unsigned>> f;
    for (u64 p = 2; p * p <= n; p += (p == 2 ? 1 : 2)) {
        unsigned c = 0;
        while (n % p == 0) {
            n /= p;
            c++;
        }
        if (c)
            f.emplace_back(p, c);
    }
    if (n > 1)
        f.emplace_back(n, 1);
    return f;
}
bool is_prime64(u64 n)
{
    if (n < 2)
        return false;
    auto f = factorise(n);
    return f.size() == 1 && f[0].second == 1;
}
u64 totient64(u64 n)
{
    u64 r = n;
    for (auto &f : factorise(n))
        r = r / f.first * (f.first - 1);
    return r;
}
u64 order64(u64 a, u64 n) // 0 if gcd != 1
{
    if (gcd64(a % n, n) != 1)
        return 0;
    if (n == 1)
        return 1;
    u64 x = a % n, k = 1;
    while (x != 1) {
        x = mulmod(x, a, n);
        k++;
    }
    return k;
}
u64 carmichael64(u64 n)
{
    u64 l = 1;
    for (u64 a = 1; a < n; a++) {
        u64 o = order64(a, n);
        if (o)
            l = l / gcd64(l, o) * o;
    }
    return l;
}
std::vector<u64> roots_bruteforce(u64 a, u64 n, u64 m)
{
    std::vector<u64> r;
    u64 am = a % m;
    for (u64 x = 0; x < m; x++)
        if (powmod(x, n, m) == am)
            r.push_back(x);
    return r;
}

const unsigned SIZES[] = {1, 2, 3, 4, 8, 32};
const char *FUNCS[] = {"factor",         "factor_trial_division",
                       "factor_lehman",  "factor_pollard_pm1",
                       "factor_pollard_rho", "prime_factors",
                       "prime_factor_multiplicities", "primepi",
                       "totient",        "carmichael",
                       "multiplicative_order", "primitive_root",
                       "primitive_root_list", "mobius",
                       "mertens",        "is_quad_residue",
                       "is_nth_residue", "nthroot_mod",
                       "nthroot_mod_list", "powermod",
                       "powermod_list",  "primorial",
                       // pure functions (no seam of their own): by-catch of
                       // the same workload, checked against the definitions
                       "gcd", "lcm", "gcd_ext", "mod", "quotient", "quotient_mod",
                       "mod_f", "quotient_f", "quotient_mod_f", "mod_inverse",
                       "crt", "fibonacci", "fibonacci2", "lucas", "lucas2",
                       "binomial", "factorial", "divides", "bernoulli", "harmonic",
                       "legendre", "jacobi", "kronecker", "quadratic_residues",
                       "polygonal_number", "polygonal_root", "perfect_power",
                       "nextprime", "probab_prime_p",
                       // large arguments, judged by defining identities
                       "factor_big", "nthroot_big"};
const unsigned NFUNCS = sizeof FUNCS / sizeof FUNCS[0];
const unsigned FIRST_PURE = 22;
const unsigned N_PURE_PLAIN = 29; // pure functions with the (x, y, z, w) argument scheme

long long pick_value(Rng &g)
{
    switch (g.below(7)) {
        case 0:
            return g.range(-2, 2);
        case 1:
        case 2:
            return g.range(-40, 40);
        case 3:
            return g.range(-100000, 100000);
        case 4:
            return g.range(-1000000000000LL, 1000000000000LL);
        case 5: { // near a power of two / a square / a prime power
            long long b = 1LL << g.below(40);
            return (g.chance(1, 2) ? b : -b) + g.range(-1, 1);
        }
        default: {
            long long r = g.range(2, 1000);
            long long v = r;
            unsigned e = 1 + (unsigned)g.below(3);
            for (unsigned i = 0; i < e && v < 1000000000LL; i++)
                v *= r;
            return v + (g.chance(1, 4) ? g.range(-1, 1) : 0);
        }
    }
}

u64 pick_modulus(Rng &g)
{
    switch (g.below(8)) {
        case 0: { // prime
            u64 m;
            do
                m = 2 + g.below(4000);
            while (!is_prime64(m));
            return m;
        }
        case 1: { // prime power
            static const u64 pp[] = {4, 8, 9, 16, 25, 27, 32, 49, 64, 81, 121,
                                     125, 128, 169, 243, 256, 343, 512, 625,
                                     729, 1024, 2187, 2401, 3125};
            return pp[g.below(sizeof pp / sizeof pp[0])];
        }
        case 3: { // prime p = 1 (mod 8), p >= 10000: the Tonelli-Shanks path
            u64 m;
            do
                m = 10001 + 8 * g.below(3000);
            while (!is_prime64(m));
            return g.chance(1, 4) ? 2 * m : m;
        }
        case 2: { // 2 * odd prime power, 4 * ...
            static const u64 pp[] = {6, 10, 14, 18, 50, 54, 98, 12, 20, 36, 100,
                                     242, 250, 338, 1458};
            return pp[g.below(sizeof pp / sizeof pp[0])];
        }
        default:
            return 2 + g.below(3000);
    }
}

Json gen(uint64_t seed, const std::string &tier)
{
    Rng g(seed);
    bool thorough = tier == "thorough";
    Json plan = Json::object();
    Json cfg = Json::object();
    unsigned nlists = 2 + (unsigned)g.below(thorough ? 5 : 3);
    cfg["nlists"] = nlists;
    // allocator seam: when a freed address is handed out again (a cache keyed
    // by object address is right only until the object dies)
    static const char *pol[] = {"system", "lifo", "lifo", "fifo", "random"};
    cfg["policy"] = pol[g.below(5)];
    cfg["alloc_seed"] = (long long)(g.next() >> 2);
    plan["config"] = cfg;
    // swarm: which function families this run concentrates on
    std::vector<unsigned> fw(NFUNCS, 2);
    for (auto &x : fw)
        if (g.chance(1, 3))
            x = g.chance(1, 2) ? 0 : 8;
    unsigned tot = 0;
    for (auto x : fw)
        tot += x;
    if (!tot)
        fw[17] = 1;
    std::vector<unsigned> ow = {10, 2, 1, 2, 2, 1, 2}; // call, clear, set_clear, set_size, it_step, it_new/del, gen
    if (g.chance(1, 4))
        for (size_t i = 1; i < ow.size(); i++)
            ow[i] *= 3;
    unsigned nops = 8 + (unsigned)g.below(thorough ? 50 : 30);
    unsigned force_share = (unsigned)g.below(4); // swarm: 0 = no forced GMP draws
    Json ops = Json::array();
    u64 last_m = 0;
    std::vector<size_t> call_idx;
    for (unsigned k = 0; k < nops; k++) {
        Json o = Json::object();
        switch (g.weighted(ow)) {
            case 0: {
                if (!call_idx.empty() && g.chance(1, 3)) {
                    // the same call again, now with a different sieve state
                    o = ops[call_idx[g.below(call_idx.size())]];
                    o["repeat"] = true;
                } else {
                    o["op"] = "call";
                    unsigned fi = (unsigned)g.weighted(fw);
                    o["fn"] = FUNCS[fi];
                    std::string fn = FUNCS[fi];
                    u64 n;
                    if ((fn.compare(0, 6, "factor") == 0 && fn != "factor_big" && fn != "factorial")
                        || fn == "prime_factors"
                        || fn == "prime_factor_multiplicities") {
                        switch (g.below(5)) {
                            case 0:
                                n = 2 + g.below(2000);
                                break;
                            case 1: { // semiprime of two primes below 2^20
                                u64 a, b;
                                do
                                    a = 1000 + g.below(1u << 20);
                                while (!is_prime64(a));
                                do
                                    b = 1000 + g.below(1u << 20);
                                while (!is_prime64(b));
                                n = a * b;
                                break;
                            }
                            case 2: { // prime
                                do
                                    n = 2 + g.below(1000000);
                                while (!is_prime64(n));
                                break;
                            }
                            case 3: { // square of a prime / prime power
                                u64 a;
                                do
                                    a = 2 + g.below(3000);
                                while (!is_prime64(a));
                                n = a * a * (g.chance(1, 2) ? a : 1);
                                break;
                            }
                            default:
                                n = 2 + g.below(1000000);
                        }
                        o["n"] = (long long)n;
                        o["B"] = (unsigned)(3 + g.below(60));
                    } else if (fn == "factor_big") {
                        // n >= 2^64 with a small prime factor q (so that the
                        // unchanged methods finish at once): n = q * r
                        u64 q;
                        do
                            q = 3 + g.below(3000);
                        while (!is_prime64(q));
                        unsigned __int128 r = ((unsigned __int128)1 << 64) / q + 1
                                              + (unsigned __int128)g.next() % ((unsigned __int128)1 << (58 + g.below(8)));
                        if (g.chance(1, 3)) // 2^64 + small: a tiny low word
                            r = (((unsigned __int128)1 << 64) + g.below(5000)) / q + 1;
                        if (g.chance(1, 2))
                            r |= 1;
                        unsigned __int128 n = r * q;
                        std::string ds;
                        while (n) {
                            ds += (char)('0' + (int)(n % 10));
                            n /= 10;
                        }
                        std::reverse(ds.begin(), ds.end());
                        o["N"] = ds;
                        o["w"] = (unsigned)g.below(5);
                        o["B"] = (unsigned)(3 + g.below(60));
                    } else if (fn == "nthroot_big") {
                        static const u64 sp[] = {3, 5, 7, 11, 13, 17, 31, 41, 73, 97, 101, 257, 1009,
                                                 10009, 10177, 40487, 40487, 65537, 104729};
                        u64 pp = sp[g.below(sizeof sp / sizeof sp[0])];
                        unsigned k = 1 + (unsigned)g.below(4);
                        u64 q = pp;
                        unsigned kk = 1;
                        while (kk < k && q <= (((u64)1 << 40) / pp)) {
                            q *= pp;
                            kk++;
                        }
                        o["m"] = (long long)pp;
                        o["k"] = kk;
                        // n: product of some prime factors of phi(p^k) and some strangers
                        u64 n = 1;
                        std::vector<u64> cand;
                        for (auto &f : factorise(pp - 1))
                            cand.push_back(f.first);
                        if (kk > 1)
                            cand.push_back(pp);
                        cand.push_back(2);
                        cand.push_back(3);
                        cand.push_back(5);
                        unsigned cnt = 1 + (unsigned)g.below(3);
                        for (unsigned i = 0; i < cnt; i++) {
                            u64 c = cand[g.below(cand.size())];
                            if (n <= 4000000000ULL / c)
                                n *= c;
                        }
                        if (kk > 1 && g.chance(1, 2)) {
                            // p | n and gcd(n, p - 1) > 1: lifting and the
                            // choice of a generator mod p^k both matter
                            auto fs = factorise(pp - 1);
                            u64 f = fs[g.below(fs.size())].first;
                            if (fs.size() > 1 && g.chance(2, 3))
                                f = fs[1].first; // smallest odd prime factor of p - 1
                            n = pp * f;
                        }
                        o["n"] = (long long)n;
                        o["a"] = (long long)(g.chance(1, 3) ? 1 : 1 + g.below(q - 1));
                        o["r"] = (long long)g.below(1000); // a := r-th ... (used to build residues)
                    } else if (fi >= FIRST_PURE && fi < FIRST_PURE + N_PURE_PLAIN) {
                        o["x"] = pick_value(g);
                        o["y"] = pick_value(g);
                        o["z"] = pick_value(g);
                        o["w"] = pick_value(g);
                    } else if (fn == "primepi" || fn == "mertens" || fn == "primorial") {
                        // mertens(n) re-sieves n times (one iterator per
                        // mobius call): keep n small
                        o["n"] = (long long)(fn == "mertens" ? 1 + g.below(250)
                                                              : 1 + g.below(200000));
                    } else if (fn == "mobius" || fn == "totient") {
                        o["n"] = (long long)(1 + g.below(1000000));
                    } else {
                        u64 m = pick_modulus(g);
                        // often related to the modulus of the previous call:
                        // m -> 2m, m/2, m*p, m/p (a stale per-modulus result
                        // is most easily mistaken for the neighbour's)
                        if (last_m && g.chance(1, 4)) {
                            switch (g.below(4)) {
                                case 0:
                                    m = last_m * 2;
                                    break;
                                case 1:
                                    m = last_m % 2 == 0 ? last_m / 2 : last_m * 2;
                                    break;
                                case 2: {
                                    auto fs = factorise(last_m);
                                    m = last_m * fs[g.below(fs.size())].first;
                                    break;
                                }
                                default: {
                                    auto fs = factorise(last_m);
                                    m = last_m / fs[g.below(fs.size())].first;
                                }
                            }
                            if (m < 2 || m > 40000)
                                m = last_m;
                        }
                        last_m = m;
                        o["m"] = (long long)m;
                        o["abig"] = (unsigned)(g.chance(1, 6) ? 1 + g.below(4) : 0);
                        o["a"] = (long long)g.below(g.chance(1, 8) ? 3 * m : m);
                        o["n"] = (long long)(1 + g.below(g.chance(1, 2) ? 4 : 12));
                        if (m >= 10000) {
                            // the randomised square-root path: square roots of squares
                            if (g.chance(1, 2))
                                o["n"] = 2;
                            if (g.chance(1, 2)) {
                                u64 t = 1 + g.below(m - 1);
                                o["a"] = (long long)mulmod(t, t, m);
                            }
                        }
                        o["r"] = (long long)g.range(-3, 5);
                    }
                    Json lists = Json::array();
                    for (unsigned s = 0; s < nlists; s++) {
                        Json l = Json::array();
                        unsigned c = 1 + (unsigned)g.below(4);
                        for (unsigned i = 0; i < c; i++)
                            l.push(Json((int)(g.chance(1, 10)
                                                  ? (int)g.below(3)
                                                  : (int)(g.next() & 0x7fffffff))));
                        lists.push(l);
                    }
                    o["seeds"] = lists;
                    Json force = Json::array();
                    for (unsigned s = 0; s < nlists; s++) {
                        Json fz = Json::array();
                        if (g.below(4) < force_share) {
                            if (g.chance(1, 2)) {
                                static const unsigned L[] = {1, 2, 3, 5, 8, 13, 24, 40};
                                fz.push("prefix");
                                fz.push(L[g.below(8)]);
                                fz.push((unsigned)g.below(5));
                            } else {
                                fz.push("at");
                                unsigned cnt = 1 + (unsigned)g.below(3);
                                for (unsigned i = 0; i < cnt; i++) {
                                    fz.push((unsigned)g.below(6));
                                    fz.push((unsigned)g.below(5));
                                }
                            }
                        }
                        force.push(fz);
                    }
                    // a modulus that takes the randomised square-root path
                    // (prime = 1 mod 8 above 10000, or twice that): the first
                    // draw of one seed list is forced to a boundary value
                    if (o.has("m") && o.geti("m") >= 10000 && force.size() > 0 && g.chance(2, 3)) {
                        Json fz = Json::array();
                        fz.push("at");
                        fz.push(0);
                        fz.push((unsigned)g.below(3)); // 0, 1 or n-1
                        force.a[force.size() - 1] = fz;
                    }
                    o["force"] = force;
                    call_idx.push_back(ops.size());
                }
                break;
            }
            case 1:
                o["op"] = "clear";
                break;
            case 2:
                o["op"] = "set_clear";
                o["v"] = g.chance(1, 2);
                break;
            case 3:
                o["op"] = "set_size";
                o["k"] = SIZES[g.below(6)];
                break;
            case 4:
                o["op"] = "it_step";
                o["n"] = (unsigned)(1 + g.below(g.chance(1, 3) ? 5000 : 50));
                break;
            case 5:
                o["op"] = g.chance(1, 2) ? "it_new" : "it_del";
                break;
            default:
                o["op"] = "gen";
                o["limit"] = (unsigned)g.below(g.chance(1, 2) ? 300000 : 3000);
        }
        ops.push(o);
    }
    plan["ops"] = ops;
    return plan;
}

// ---------------------------------------------------------------------------
std::string vec_str(const std::vector<u64> &v)
{
    std::string s;
    for (size_t i = 0; i < v.size() && i < 40; i++)
        s += std::to_string(v[i]) + " ";
    if (v.size() > 40)
        s += "...(" + std::to_string(v.size()) + ")";
    return s;
}
u64 residue(const Integer &x, u64 m)
{
    integer_class r;
    mp_fdiv_r(r, x.as_integer_class(), integer_class((unsigned long)m));
    return mp_get_ui(r);
}

struct Outcome {
    std::string canon;   // canonical result string, must not vary
    std::string error;   // non-empty: the result contradicts the definition
    bool heavy = false;  // expensive call: not repeated under further seed lists
};


// ---------------------------------------------------------------------------
// Pure functions: oracles from the definitions, in __int128 / raw GMP
// arithmetic (mpz_add, mpz_mul, mpq_* only - none of the functions under test)
std::string s128(i128 v)
{
    if (v == 0)
        return "0";
    bool neg = v < 0;
    unsigned __int128 u = neg ? (unsigned __int128)(-(v + 1)) + 1 : (unsigned __int128)v;
    std::string s;
    while (u) {
        s += (char)('0' + (int)(u % 10));
        u /= 10;
    }
    if (neg)
        s += '-';
    std::reverse(s.begin(), s.end());
    return s;
}
i128 abs128(i128 v)
{
    return v < 0 ? -v : v;
}
i128 gcd128(i128 a, i128 b)
{
    a = abs128(a);
    b = abs128(b);
    while (b) {
        i128 t = a % b;
        a = b;
        b = t;
    }
    return a;
}
i128 floordiv(i128 a, i128 b)
{
    i128 q = a / b, r = a % b;
    if (r != 0 && ((r < 0) != (b < 0)))
        q -= 1;
    return q;
}
struct Z { // raw GMP integer
    mpz_t v;
    Z()
    {
        mpz_init(v);
    }
    Z(long x)
    {
        mpz_init_set_si(v, x);
    }
    Z(const Z &o)
    {
        mpz_init_set(v, o.v);
    }
    Z &operator=(const Z &o)
    {
        mpz_set(v, o.v);
        return *this;
    }
    ~Z()
    {
        mpz_clear(v);
    }
    std::string str() const
    {
        char *c = mpz_get_str(nullptr, 10, v);
        std::string s = c;
        free(c);
        return s;
    }
};
struct Q { // raw GMP rational
    mpq_t v;
    Q()
    {
        mpq_init(v);
    }
    Q(const Q &o)
    {
        mpq_init(v);
        mpq_set(v, o.v);
    }
    Q &operator=(const Q &o)
    {
        mpq_set(v, o.v);
        return *this;
    }
    ~Q()
    {
        mpq_clear(v);
    }
    std::string str() const
    {
        char *c = mpq_get_str(nullptr, 10, v);
        std::string s = c;
        free(c);
        return s;
    }
};
int legendre_brute(long long a, u64 p) // p odd prime
{
    u64 am = (u64)(((a % (long long)p) + (long long)p) % (long long)p);
    if (am == 0)
        return 0;
    for (u64 x = 1; x < p; x++)
        if (mulmod(x, x, p) == am)
            return 1;
    return -1;
}
int kronecker_brute(long long a, long long n)
{
    if (n == 0)
        return (a == 1 || a == -1) ? 1 : 0;
    int r = 1;
    if (n < 0) {
        if (a < 0)
            r = -r;
        n = -n;
    }
    while (n % 2 == 0) {
        n /= 2;
        if (a % 2 == 0)
            return 0;
        long long m8 = ((a % 8) + 8) % 8;
        if (m8 == 3 || m8 == 5)
            r = -r;
    }
    for (auto &f : factorise((u64)n)) {
        int l = legendre_brute(a, f.first);
        if (l == 0)
            return 0;
        if (l < 0 && (f.second & 1))
            r = -r;
    }
    return r;
}

bool do_pure(const Json &o, Outcome &out)
{
    std::string fn = o.gets("fn");
    long long x = o.geti("x"), y = o.geti("y"), z = o.geti("z"), w = o.geti("w");
    const long long LIM = 2000000000000LL;
    auto clamp = [&](long long &v) {
        if (v > LIM)
            v = LIM;
        if (v < -LIM)
            v = -LIM;
    };
    clamp(x);
    clamp(y);
    clamp(z);
    clamp(w);
    auto I = [](long long v) { return integer(integer_class((long)v)); };
    auto args2 = [&]() { return "(" + std::to_string(x) + ", " + std::to_string(y) + ")"; };
    auto expect = [&](const std::string &want) {
        if (out.canon != want)
            out.error = fn + " = " + out.canon + ", expected " + want;
    };

    if (fn == "factor_big") {
        std::string N = o.gets("N");
        bool ok = !N.empty() && N.size() <= 26;
        for (char c : N)
            if (c < '0' || c > '9')
                ok = false;
        if (!ok) {
            out.canon = "skipped";
            return true;
        }
        Z nn;
        mpz_set_str(nn.v, N.c_str(), 10);
        if (mpz_cmp_ui(nn.v, 1000) < 0) {
            out.canon = "skipped";
            return true;
        }
        // smallest prime factor below 3000, if any (raw GMP)
        unsigned long small = 0;
        for (unsigned long q = 2; q < 3100 && !small; q++)
            if (is_prime64(q) && mpz_divisible_ui_p(nn.v, q))
                small = q;
        RCP<const Integer> nI = integer(integer_class(N));
        RCP<const Integer> f;
        int which = (int)(w % 5), ret;
        bool may_fail = false;
        const char *names[] = {"factor_lehman_method", "factor_pollard_pm1_method",
                               "factor_pollard_rho_method", "factor", "factor_trial_division"};
        if (!small && which != 1 && which != 2) { // keep the unchanged tree fast
            out.canon = "skipped";
            return true;
        }
        fn = std::string(names[which]) + "(" + N + ")";
        if (which == 0)
            ret = factor_lehman_method(outArg(f), *nI);
        else if (which == 1) {
            ret = factor_pollard_pm1_method(outArg(f), *nI, (unsigned)std::max<int64_t>(3, o.geti("B", 10)));
            may_fail = true;
        } else if (which == 2) {
            ret = factor_pollard_rho_method(outArg(f), *nI);
            may_fail = true;
        } else if (which == 3)
            ret = factor(outArg(f), *nI);
        else
            ret = factor_trial_division(outArg(f), *nI);
        if (ret != 0) {
            Z fv;
            bool good = !f.is_null();
            if (good) {
                mpz_set_str(fv.v, f->__str__().c_str(), 10);
                good = mpz_cmp_ui(fv.v, 1) > 0 && mpz_cmp(fv.v, nn.v) < 0 && mpz_divisible_p(nn.v, fv.v);
            }
            if (!good)
                out.error = fn + " reported the factor " + (f.is_null() ? std::string("<null>") : f->__str__())
                            + ", which is not a non-trivial divisor";
            else if (which == 4 && mpz_cmp_ui(fv.v, small) != 0)
                out.error = fn + " returned " + fv.str() + ", not the smallest prime factor " + std::to_string(small);
            out.canon = may_fail ? "found-or-not" : "1";
        } else {
            if (!may_fail && small)
                out.error = fn + " found no factor although " + std::to_string(small) + " divides it";
            out.canon = may_fail ? "found-or-not" : "0";
        }
        return true;
    }
    if (fn == "nthroot_big") {
        // x^n = a (mod p^k), p odd prime, gcd(a, p) = 1: the solutions form a
        // coset of the n-torsion of a cyclic group of order phi, so there are
        // d = gcd(n, phi) of them if a^(phi/d) = 1 and none otherwise
        u64 pp = (u64)std::max<int64_t>(3, o.geti("m", 3));
        if (!is_prime64(pp) || pp == 2 || pp > 200000)
            pp = 10009;
        unsigned k = (unsigned)std::max<int64_t>(1, o.geti("k", 1));
        u64 q = pp;
        for (unsigned i = 1; i < k && q <= (((u64)1 << 40) / pp); i++)
            q *= pp;
        u64 phi = q / pp * (pp - 1);
        u64 n = (u64)std::max<int64_t>(1, o.geti("n", 1));
        u64 a = (u64)std::max<int64_t>(1, o.geti("a", 1)) % q;
        if (a % pp == 0)
            a = 1;
        if (o.geti("r") % 3 != 2) // make solvable instances frequent
            a = powmod(a, n, q);
        u64 d = gcd64(n, phi);
        if (d > 1400000)
            n = 2, d = gcd64(n, phi);
        bool solvable = powmod(a, phi / d, q) == 1;
        auto I = [](u64 v) { return integer(integer_class((unsigned long)v)); };
        fn = "(" + std::to_string(a) + ", " + std::to_string(n) + ", " + std::to_string(q) + ")";
        std::vector<RCP<const Integer>> roots;
        nthroot_mod_list(roots, I(a), I(n), I(q));
        std::vector<u64> got;
        for (auto &r : roots)
            got.push_back(residue(*r, q));
        std::sort(got.begin(), got.end());
        size_t distinct = std::unique(got.begin(), got.end()) - got.begin();
        out.canon = std::to_string(roots.size()) + " roots";
        out.heavy = roots.size() > 20000;
        for (size_t i = 0; i < distinct && out.error.empty(); i++)
            if (powmod(got[i], n, q) != a)
                out.error = "nthroot_mod_list" + fn + " contains " + std::to_string(got[i]) + ", which is not a root";
        if (out.error.empty() && distinct != roots.size())
            out.error = "nthroot_mod_list" + fn + " lists " + std::to_string(roots.size()) + " roots, only "
                        + std::to_string(distinct) + " of them distinct";
        if (out.error.empty() && distinct != (solvable ? d : 0))
            out.error = "nthroot_mod_list" + fn + " has " + std::to_string(distinct) + " roots, the group structure gives "
                        + std::to_string(solvable ? d : 0);
        if (out.error.empty()) {
            RCP<const Integer> root;
            bool ok = nthroot_mod(outArg(root), I(a), I(n), I(q));
            if (ok != solvable)
                out.error = "nthroot_mod" + fn + " says " + (ok ? "a root exists" : "no root") + ", expected the opposite";
            else if (ok && powmod(residue(*root, q), n, q) != a)
                out.error = "nthroot_mod" + fn + " = " + root->__str__() + " is not a root";
        }
        if (out.error.empty() && is_nth_residue(*I(a), *I(n), *I(q)) != solvable)
            out.error = "is_nth_residue" + fn + " disagrees with the group structure";
        return true;
    }
    if (fn == "gcd") {
        out.canon = gcd(*I(x), *I(y))->__str__();
        fn += args2();
        expect(s128(gcd128(x, y)));
        return true;
    }
    if (fn == "lcm") {
        out.canon = lcm(*I(x), *I(y))->__str__();
        fn += args2();
        i128 g = gcd128(x, y);
        expect(g == 0 ? "0" : s128(abs128((i128)x / g * y)));
        return true;
    }
    if (fn == "gcd_ext") {
        RCP<const Integer> g, s, t;
        gcd_ext(outArg(g), outArg(s), outArg(t), *I(x), *I(y));
        out.canon = g->__str__();
        fn += args2();
        expect(s128(gcd128(x, y)));
        if (out.error.empty()) {
            // Bezout identity, evaluated with raw GMP
            Z a(x), b(y), S, T, acc;
            mpz_set_str(S.v, s->__str__().c_str(), 10);
            mpz_set_str(T.v, t->__str__().c_str(), 10);
            mpz_mul(acc.v, a.v, S.v);
            mpz_addmul(acc.v, b.v, T.v);
            if (acc.str() != out.canon)
                out.error = fn + ": s*a + t*b = " + acc.str() + " with s = " + s->__str__()
                            + ", t = " + t->__str__() + ", but g = " + out.canon;
        }
        return true;
    }
    if (fn == "mod" || fn == "quotient" || fn == "quotient_mod" || fn == "mod_f"
        || fn == "quotient_f" || fn == "quotient_mod_f") {
        if (y == 0)
            y = 7;
        bool fl = fn.size() > 2 && fn.compare(fn.size() - 2, 2, "_f") == 0;
        i128 q = fl ? floordiv(x, y) : (i128)x / y;
        i128 r = (i128)x - q * y;
        std::string want;
        if (fn == "mod")
            out.canon = mod(*I(x), *I(y))->__str__(), want = s128(r);
        else if (fn == "mod_f")
            out.canon = mod_f(*I(x), *I(y))->__str__(), want = s128(r);
        else if (fn == "quotient")
            out.canon = quotient(*I(x), *I(y))->__str__(), want = s128(q);
        else if (fn == "quotient_f")
            out.canon = quotient_f(*I(x), *I(y))->__str__(), want = s128(q);
        else {
            RCP<const Integer> qq, rr;
            if (fl)
                quotient_mod_f(outArg(qq), outArg(rr), *I(x), *I(y));
            else
                quotient_mod(outArg(qq), outArg(rr), *I(x), *I(y));
            out.canon = qq->__str__() + " rem " + rr->__str__();
            want = s128(q) + " rem " + s128(r);
        }
        fn += args2();
        expect(want);
        return true;
    }
    if (fn == "mod_inverse") {
        long long m = y < 0 ? -y : y;
        if (m < 2)
            m += 2;
        RCP<const Integer> b;
        int ret = mod_inverse(outArg(b), *I(x), *I(m));
        bool exists = gcd128(x, m) == 1;
        fn += "(" + std::to_string(x) + ", " + std::to_string(m) + ")";
        if ((ret != 0) != exists)
            out.error = fn + " returned " + std::to_string(ret) + " but gcd is "
                        + s128(gcd128(x, m));
        else if (exists) {
            out.canon = b->__str__();
            long long bv = (long long)mp_get_si(b->as_integer_class());
            i128 prod = ((i128)x * bv) % m;
            if (prod < 0)
                prod += m;
            if (bv < 0 || bv >= m || prod != 1 % m)
                out.error = fn + " = " + out.canon + " is not the inverse in [0, m)";
        } else
            out.canon = "none";
        return true;
    }
    if (fn == "crt") {
        // 2-4 congruences with small moduli (possibly not coprime)
        long long vals[4] = {x, y, z, w};
        unsigned cnt = 2 + (unsigned)(((x ^ y) & 0x7fffffff) % 3);
        std::vector<RCP<const Integer>> rem, mods;
        std::vector<long long> rv, mv;
        for (unsigned i = 0; i < cnt; i++) {
            long long m = 1 + (vals[i] < 0 ? -vals[i] : vals[i]) % 60;
            long long r = vals[(i + 1) % 4] % 1000;
            // make most systems consistent: derive the remainders from one number
            if ((z & 3) != 0)
                r = ((w % 100000) % m + m) % m + ((i & 1) ? m : 0);
            rv.push_back(r);
            mv.push_back(m);
            rem.push_back(I(r));
            mods.push_back(I(m));
        }
        RCP<const Integer> R;
        bool ok = crt(outArg(R), rem, mods);
        i128 L = 1;
        for (auto m : mv)
            L = L / gcd128(L, m) * m;
        long long sol = -1;
        for (long long c = 0; c < (long long)L && c < 20000000; c++) {
            bool all = true;
            for (unsigned i = 0; i < cnt && all; i++)
                if (((c - rv[i]) % mv[i]) != 0)
                    all = false;
            if (all) {
                sol = c;
                break;
            }
        }
        fn += "(rem";
        for (auto r : rv)
            fn += " " + std::to_string(r);
        fn += "; mod";
        for (auto m : mv)
            fn += " " + std::to_string(m);
        fn += ")";
        if (L > 20000000) {
            out.canon = "skipped";
            return true;
        }
        out.canon = ok ? R->__str__() : "none";
        expect(sol < 0 ? "none" : std::to_string(sol));
        return true;
    }
    if (fn == "fibonacci" || fn == "fibonacci2" || fn == "lucas" || fn == "lucas2") {
        unsigned long n = 1 + (unsigned long)((x < 0 ? -x : x) % 400);
        bool luc = fn[0] == 'l';
        Z a(luc ? 2 : 0), b(1), t; // a = X(0), b = X(1)
        for (unsigned long i = 1; i < n; i++) {
            mpz_add(t.v, a.v, b.v);
            a = b;
            b = t;
        } // b = X(n), a = X(n-1)
        fn += "(" + std::to_string(n) + ")";
        if (fn.find('2') == std::string::npos) {
            out.canon = (luc ? lucas(n) : fibonacci(n))->__str__();
            expect(b.str());
        } else {
            RCP<const Integer> g, s;
            if (luc)
                lucas2(outArg(g), outArg(s), n);
            else
                fibonacci2(outArg(g), outArg(s), n);
            out.canon = g->__str__() + " " + s->__str__();
            expect(b.str() + " " + a.str());
        }
        return true;
    }
    if (fn == "binomial") {
        long long n = x % 300;
        unsigned long k = (unsigned long)((y < 0 ? -y : y) % 60);
        Z num(1), den(1);
        for (unsigned long i = 0; i < k; i++) {
            mpz_mul_si(num.v, num.v, (long)(n - (long long)i));
            mpz_mul_ui(den.v, den.v, i + 1);
        }
        Z q;
        mpz_divexact(q.v, num.v, den.v); // binomial(n, k) is an integer
        out.canon = binomial(*I(n), k)->__str__();
        fn += "(" + std::to_string(n) + ", " + std::to_string(k) + ")";
        expect(q.str());
        return true;
    }
    if (fn == "factorial") {
        unsigned long n = (unsigned long)((x < 0 ? -x : x) % 200);
        Z f(1);
        for (unsigned long i = 2; i <= n; i++)
            mpz_mul_ui(f.v, f.v, i);
        out.canon = factorial(n)->__str__();
        fn += "(" + std::to_string(n) + ")";
        expect(f.str());
        return true;
    }
    if (fn == "divides") {
        if ((z & 1) && y != 0)
            x = (x / y) * y; // make divisibility frequent
        bool got = divides(*I(x), *I(y));
        out.canon = got ? "1" : "0";
        fn += args2();
        expect((y == 0 ? x == 0 : x % y == 0) ? "1" : "0");
        return true;
    }
    if (fn == "bernoulli") {
        unsigned long n = (unsigned long)((x < 0 ? -x : x) % 45);
        // B_m from sum_{k<=m} C(m+1, k) B_k = 0 (B_1 = -1/2), then the sign
        // convention of the library (B_1 = +1/2)
        std::vector<Q> B(n + 1);
        for (unsigned long m = 0; m <= n; m++) {
            if (m == 0) {
                mpq_set_si(B[0].v, 1, 1);
                continue;
            }
            Q acc, term, c;
            Z bin(1);
            for (unsigned long k = 0; k < m; k++) {
                // bin = C(m+1, k)
                mpq_set_z(c.v, bin.v);
                mpq_mul(term.v, c.v, B[k].v);
                mpq_add(acc.v, acc.v, term.v);
                mpz_mul_ui(bin.v, bin.v, m + 1 - k);
                mpz_divexact_ui(bin.v, bin.v, k + 1);
            }
            Q d;
            mpq_set_si(d.v, -1, m + 1);
            mpq_canonicalize(d.v);
            mpq_mul(B[m].v, acc.v, d.v);
        }
        if (n == 1)
            mpq_neg(B[1].v, B[1].v);
        out.canon = bernoulli(n)->__str__();
        fn += "(" + std::to_string(n) + ")";
        expect(B[n].str());
        return true;
    }
    if (fn == "harmonic") {
        unsigned long n = (unsigned long)((x < 0 ? -x : x) % 60);
        long m = (long)(y % 5);
        if ((z & 3) == 0)
            m = 1;
        Q acc;
        for (unsigned long i = 1; i <= n; i++) {
            Z pw;
            mpz_ui_pow_ui(pw.v, i, (unsigned long)(m < 0 ? -m : m));
            Q t;
            if (m >= 0) {
                mpz_set_ui(mpq_numref(t.v), 1);
                mpz_set(mpq_denref(t.v), pw.v);
            } else
                mpq_set_z(t.v, pw.v);
            mpq_canonicalize(t.v);
            mpq_add(acc.v, acc.v, t.v);
        }
        out.canon = harmonic(n, m)->__str__();
        fn += "(" + std::to_string(n) + ", " + std::to_string(m) + ")";
        expect(acc.str());
        return true;
    }
    if (fn == "legendre" || fn == "jacobi" || fn == "kronecker") {
        long long a = x % 100000, n;
        if (fn == "legendre") {
            u64 p = 3 + (u64)((y < 0 ? -y : y) % 3000);
            while (!is_prime64(p) || p == 2)
                p++;
            n = (long long)p;
            out.canon = std::to_string(legendre(*I(a), *I(n)));
        } else if (fn == "jacobi") {
            n = 1 + 2 * ((y < 0 ? -y : y) % 3000);
            out.canon = std::to_string(jacobi(*I(a), *I(n)));
        } else {
            n = y % 6000;
            out.canon = std::to_string(kronecker(*I(a), *I(n)));
        }
        fn += "(" + std::to_string(a) + ", " + std::to_string(n) + ")";
        expect(std::to_string(kronecker_brute(a, n)));
        return true;
    }
    if (fn == "quadratic_residues") {
        long long m = 1 + (x < 0 ? -x : x) % 600;
        std::vector<u64> want, got;
        for (long long i = 0; i < m; i++)
            want.push_back((u64)(i * i % m));
        std::sort(want.begin(), want.end());
        want.erase(std::unique(want.begin(), want.end()), want.end());
        for (auto &c : quadratic_residues(*I(m)))
            got.push_back((u64)mp_get_ui(c));
        out.canon = vec_str(got);
        fn += "(" + std::to_string(m) + ")";
        if (got != want)
            out.error = fn + " = [" + vec_str(got) + "], expected [" + vec_str(want) + "]";
        return true;
    }
    if (fn == "polygonal_number" || fn == "polygonal_root") {
        long long s = 3 + (x < 0 ? -x : x) % 40;
        long long n = 1 + (y < 0 ? -y : y) % 100000;
        if ((w & 3) == 0) { // large arguments: both just below 2^31, or one large one small
            s = 3 + (x < 0 ? -x : x) % 2147483000LL;
            n = 1 + (y < 0 ? -y : y) % 2147483000LL;
            if (w & 4)
                s = 3 + s % 1000;
        }
        if ((w & 8) && fn == "polygonal_number") {
            // the symbolic-layer function on Integer arguments, judged in raw GMP
            Z S(s), N(n), t, u, acc;
            mpz_sub_ui(t.v, S.v, 2);
            mpz_mul(t.v, t.v, N.v);
            mpz_mul(t.v, t.v, N.v); // (s-2) n^2
            mpz_sub_ui(u.v, S.v, 4);
            mpz_mul(u.v, u.v, N.v); // (s-4) n
            mpz_sub(acc.v, t.v, u.v);
            mpz_divexact_ui(acc.v, acc.v, 2);
            out.canon = polygonal_number(I(s), I(n))->__str__();
            fn = "polygonal_number[Basic](" + std::to_string(s) + ", " + std::to_string(n) + ")";
            expect(acc.str());
            if (out.error.empty()) {
                std::string back = principal_polygonal_root(I(s), integer(integer_class(acc.str())))->__str__();
                if (back != std::to_string(n))
                    out.error = "principal_polygonal_root(" + std::to_string(s) + ", " + acc.str() + ") = " + back
                                + ", expected " + std::to_string(n);
            }
            return true;
        }
        if (s > 42 || n > 100000)
            s = 3 + s % 40, n = 1 + n % 100000;
        i128 P = ((i128)(s - 2) * n * n - (i128)(s - 4) * n) / 2;
        if (fn == "polygonal_number") {
            out.canon = integer(mp_polygonal_number(integer_class((long)s),
                                                    integer_class((long)n)))
                            ->__str__();
            fn += "(" + std::to_string(s) + ", " + std::to_string(n) + ")";
            expect(s128(P));
        } else {
            // largest r with P(s, r) <= X, for X at or between polygonal numbers
            i128 Pn = ((i128)(s - 2) * (n + 1) * (n + 1) - (i128)(s - 4) * (n + 1)) / 2;
            i128 off = (z & 1) ? 0 : (i128)((z < 0 ? -z : z)) % (Pn - P);
            i128 X = P + off;
            out.canon = integer(mp_principal_polygonal_root(
                                    integer_class((long)s),
                                    integer_class((long)(long long)X)))
                            ->__str__();
            fn += "(" + std::to_string(s) + ", " + s128(X) + ")";
            expect(std::to_string(n));
        }
        return true;
    }
    if (fn == "perfect_power") {
        long long n = x < 0 ? -x : x;
        if ((z & 1) == 0) { // make perfect powers frequent
            long long b = 2 + (y < 0 ? -y : y) % 1000;
            unsigned e = 2 + (unsigned)((w < 0 ? -w : w) % 6);
            n = 1;
            for (unsigned i = 0; i < e && n <= LIM / b; i++)
                n *= b;
        }
        if (n < 1)
            n = 1;
        bool lowest = (w & 2) != 0;
        auto pr = mp_perfect_power_decomposition(integer_class((long)n), lowest);
        out.canon = integer(pr.first)->__str__() + "^" + integer(pr.second)->__str__();
        // brute force: all (b, e) with b^e == n, e >= 2
        long long bb = n, be = 1;
        for (unsigned e = 2; e < 45; e++) {
            // integer e-th root by search
            long long lo = 1, hi = 2000000;
            if (e == 2)
                hi = 2000000;
            while (lo < hi) {
                long long mid = (lo + hi + 1) / 2;
                i128 pw = 1;
                bool over = false;
                for (unsigned i = 0; i < e; i++) {
                    pw *= mid;
                    if (pw > n) {
                        over = true;
                        break;
                    }
                }
                if (over)
                    hi = mid - 1;
                else
                    lo = mid;
            }
            i128 pw = 1;
            for (unsigned i = 0; i < e; i++)
                pw *= lo;
            if (pw == n && lo >= 2) {
                if (be == 1 || !lowest) {
                    bb = lo;
                    be = e;
                }
                if (lowest)
                    break;
            }
        }
        fn += "(" + std::to_string(n) + (lowest ? ", lowest)" : ", highest)");
        expect(std::to_string(bb) + "^" + std::to_string(be));
        return true;
    }
    if (fn == "nextprime") {
        long long a = x % 3000000;
        out.canon = nextprime(*I(a))->__str__();
        u64 p = a < 2 ? 2 : (u64)a + 1;
        while (!is_prime64(p))
            p++;
        fn += "(" + std::to_string(a) + ")";
        expect(std::to_string(p));
        return true;
    }
    if (fn == "probab_prime_p") {
        long long a = (x < 0 ? -x : x) % 100000000;
        if (z & 1) { // Carmichael numbers and squares of primes
            static const long long hard[] = {561, 1105, 1729, 2465, 2821, 6601, 8911, 10585,
                                             15841, 29341, 41041, 46657, 52633, 62745, 63973,
                                             75361, 101101, 115921, 126217, 162401, 172081,
                                             188461, 252601, 294409, 340561, 399001, 410041,
                                             449065, 488881, 512461, 9, 25, 49, 121, 169, 289,
                                             3215031751LL, 2147483647LL, 4294967291LL};
            a = hard[(a % (long long)(sizeof hard / sizeof hard[0]))];
        }
        int r = probab_prime_p(*I(a));
        out.canon = r ? "prime" : "composite";
        fn += "(" + std::to_string(a) + ")";
        expect(is_prime64((u64)a) ? "prime" : "composite");
        return true;
    }
    return false;
}

// one call under the current sieve state and rand seed list
Outcome do_call(const Json &o, Run &run)
{
    Outcome out;
    std::string fn = o.gets("fn");
    u64 n = (u64)std::max<int64_t>(1, o.geti("n", 1));
    u64 m = (u64)std::max<int64_t>(2, o.geti("m", 7));
    u64 a = (u64)std::max<int64_t>(0, o.geti("a", 0));
    auto I = [](u64 v) { return integer(integer_class((unsigned long)v)); };
    // the base of the modular functions, optionally as a multi-limb number
    // with the same residue: a + m * (2^(64 j) + c)
    RCP<const Integer> IA = I(a);
    if (o.geti("abig") > 0) {
        integer_class K(1);
        K = K << (unsigned long)(64 * std::min<int64_t>(4, o.geti("abig")));
        K = K + integer_class((long)(o.geti("abig") * 7 + 3));
        IA = integer(integer_class((unsigned long)a) + integer_class((unsigned long)m) * K);
        run.probe("multi_limb_base");
    }
    if (fn.compare(0, 6, "factor") == 0 && fn != "factor_big" && fn != "factorial") {
        RCP<const Integer> f;
        int ret;
        bool may_fail = false;
        if (fn == "factor")
            ret = factor(outArg(f), *I(n));
        else if (fn == "factor_trial_division")
            ret = factor_trial_division(outArg(f), *I(n));
        else if (fn == "factor_lehman") {
            if (n < 21)
                n += 21;
            ret = factor_lehman_method(outArg(f), *I(n));
        } else if (fn == "factor_pollard_pm1") {
            if (n < 4)
                n += 4;
            ret = factor_pollard_pm1_method(outArg(f), *I(n),
                                            (unsigned)o.geti("B", 10));
            may_fail = true;
        } else {
            if (n < 5)
                n += 5;
            ret = factor_pollard_rho_method(outArg(f), *I(n));
            may_fail = true;
        }
        bool composite = !is_prime64(n) && n > 3;
        if (ret != 0) {
            u64 fv = f.is_null() ? 0 : mp_get_ui(f->as_integer_class());
            if (f.is_null() || !f->is_positive() || fv <= 1 || fv >= n
                || n % fv != 0)
                out.error = fn + "(" + std::to_string(n) + ") reported the factor "
                            + (f.is_null() ? std::string("<null>") : f->__str__())
                            + ", which is not a non-trivial divisor";
            if (fn == "factor_trial_division" && out.error.empty()
                && fv != factorise(n)[0].first)
                out.error = "trial division of " + std::to_string(n) + " returned "
                            + std::to_string(fv) + ", not the smallest prime factor";
            // which divisor a randomised method finds may vary: only validity
            out.canon = may_fail ? "found-or-not" : "1:" + std::to_string(fv);
            if (fn == "factor" || fn == "factor_lehman")
                out.canon = "1"; // any valid factor (method-dependent)
        } else {
            if (!may_fail && composite && fn != "factor_lehman")
                out.error = fn + "(" + std::to_string(n)
                            + ") found no factor of a composite number";
            if (fn == "factor_lehman" && composite)
                run.probe("lehman_found_nothing_for_composite");
            out.canon = may_fail ? "found-or-not" : "0";
            if (may_fail)
                run.probe("pollard_gave_up");
        }
        return out;
    }
    if (fn == "prime_factors") {
        std::vector<RCP<const Integer>> pf;
        prime_factors(pf, *I(n));
        std::string want;
        for (auto &f : factorise(n))
            for (unsigned c = 0; c < f.second; c++)
                want += std::to_string(f.first) + " ";
        for (auto &p : pf)
            out.canon += p->__str__() + " ";
        if (out.canon != want)
            out.error = "prime_factors(" + std::to_string(n) + ") = [" + out.canon
                        + "], expected [" + want + "]";
        return out;
    }
    if (fn == "prime_factor_multiplicities") {
        map_integer_uint mm;
        prime_factor_multiplicities(mm, *I(n));
        std::string want;
        for (auto &f : factorise(n))
            want += std::to_string(f.first) + "^" + std::to_string(f.second) + " ";
        for (auto &p : mm)
            out.canon += p.first->__str__() + "^" + std::to_string(p.second) + " ";
        if (out.canon != want)
            out.error = "prime_factor_multiplicities(" + std::to_string(n) + ") = ["
                        + out.canon + "], expected [" + want + "]";
        return out;
    }
    if (fn == "primepi") {
        out.canon = primepi(I(n))->__str__();
        u64 c = 0;
        std::vector<bool> comp(n + 1, false);
        for (u64 i = 2; i <= n; i++) {
            if (!comp[i]) {
                c++;
                for (u64 j = i * i; j <= n; j += i)
                    comp[j] = true;
            }
        }
        if (out.canon != std::to_string(c))
            out.error = "primepi(" + std::to_string(n) + ") = " + out.canon
                        + ", expected " + std::to_string(c);
        return out;
    }
    if (fn == "primorial") {
        u64 nn = 1 + n % 60;
        out.canon = primorial(I(nn))->__str__();
        integer_class w(1);
        for (u64 p = 2; p <= nn; p++)
            if (is_prime64(p))
                w = w * integer_class((unsigned long)p);
        if (out.canon != integer(w)->__str__())
            out.error = "primorial(" + std::to_string(nn) + ") = " + out.canon;
        return out;
    }
    if (fn == "totient") {
        out.canon = totient(I(n))->__str__();
        if (out.canon != std::to_string(totient64(n)))
            out.error = "totient(" + std::to_string(n) + ") = " + out.canon
                        + ", expected " + std::to_string(totient64(n));
        return out;
    }
    if (fn == "carmichael") {
        out.canon = carmichael(I(m))->__str__();
        if (out.canon != std::to_string(carmichael64(m)))
            out.error = "carmichael(" + std::to_string(m) + ") = " + out.canon
                        + ", expected " + std::to_string(carmichael64(m));
        return out;
    }
    if (fn == "mobius") {
        int mu = mobius(*I(n));
        auto f = factorise(n);
        int w = (f.size() % 2) ? -1 : 1;
        for (auto &q : f)
            if (q.second > 1)
                w = 0;
        out.canon = std::to_string(mu);
        if (mu != w)
            out.error = "mobius(" + std::to_string(n) + ") = " + out.canon
                        + ", expected " + std::to_string(w);
        return out;
    }
    if (fn == "mertens") {
        long got = mertens((unsigned long)n);
        long w = 0;
        for (u64 k = 1; k <= n; k++) {
            auto f = factorise(k);
            int mu = (f.size() % 2) ? -1 : 1;
            for (auto &q : f)
                if (q.second > 1)
                    mu = 0;
            w += mu;
        }
        out.canon = std::to_string(got);
        if (got != w)
            out.error = "mertens(" + std::to_string(n) + ") = " + out.canon
                        + ", expected " + std::to_string(w);
        return out;
    }
    if (fn == "multiplicative_order") {
        RCP<const Integer> ord;
        bool ok = multiplicative_order(outArg(ord), IA, I(m));
        u64 w = order64(a, m);
        out.canon = ok ? ord->__str__() : "none";
        std::string ws = w ? std::to_string(w) : "none";
        if (out.canon != ws)
            out.error = "multiplicative_order(" + std::to_string(a) + ", "
                        + std::to_string(m) + ") = " + out.canon + ", expected " + ws;
        return out;
    }
    if (fn == "primitive_root" || fn == "primitive_root_list") {
        u64 phi = totient64(m);
        std::vector<u64> want;
        for (u64 x = 1; x < m; x++)
            if (order64(x, m) == phi)
                want.push_back(x);
        if (fn == "primitive_root") {
            RCP<const Integer> gen;
            bool ok = primitive_root(outArg(gen), *I(m));
            if (ok != !want.empty())
                out.error = "primitive_root(" + std::to_string(m) + ") says "
                            + (ok ? "exists" : "none") + ", brute force says "
                            + (want.empty() ? "none" : "exists");
            else if (ok) {
                u64 gv = residue(*gen, m);
                if (!std::binary_search(want.begin(), want.end(), gv))
                    out.error = "primitive_root(" + std::to_string(m) + ") = "
                                + gen->__str__() + " is not a primitive root";
                else if (is_prime64(m) && gv != want[0])
                    out.error = "primitive_root(" + std::to_string(m) + ") = "
                                + gen->__str__() + " is not the smallest ("
                                + std::to_string(want[0]) + ")";
                out.canon = gen->__str__();
            } else
                out.canon = "none";
        } else {
            std::vector<RCP<const Integer>> roots;
            primitive_root_list(roots, *I(m));
            std::vector<u64> got;
            for (auto &r : roots)
                got.push_back(residue(*r, m));
            std::sort(got.begin(), got.end());
            out.canon = vec_str(got);
            if (got != want)
                out.error = "primitive_root_list(" + std::to_string(m) + ") = ["
                            + vec_str(got) + "], expected [" + vec_str(want) + "]";
        }
        return out;
    }
    if (fn == "is_quad_residue" || fn == "is_nth_residue") {
        u64 nn = fn == "is_quad_residue" ? 2 : n;
        bool got = fn == "is_quad_residue" ? is_quad_residue(*IA, *I(m))
                                           : is_nth_residue(*IA, *I(nn), *I(m));
        bool w = !roots_bruteforce(a, nn, m).empty();
        out.canon = got ? "1" : "0";
        if (got != w)
            out.error = fn + "(" + std::to_string(a) + ", " + std::to_string(nn) + ", "
                        + std::to_string(m) + ") = " + out.canon + ", brute force says "
                        + (w ? "1" : "0");
        return out;
    }
    if (fn == "nthroot_mod" || fn == "nthroot_mod_list") {
        std::vector<u64> want = roots_bruteforce(a, n, m);
        if (fn == "nthroot_mod") {
            RCP<const Integer> root;
            bool ok = nthroot_mod(outArg(root), IA, I(n), I(m));
            if (ok != !want.empty())
                out.error = "nthroot_mod(" + std::to_string(a) + ", " + std::to_string(n)
                            + ", " + std::to_string(m) + ") says "
                            + (ok ? "a root exists" : "no root") + ", brute force finds "
                            + std::to_string(want.size()) + " roots";
            else if (ok
                     && !std::binary_search(want.begin(), want.end(),
                                            residue(*root, m)))
                out.error = "nthroot_mod(" + std::to_string(a) + ", " + std::to_string(n)
                            + ", " + std::to_string(m) + ") = " + root->__str__()
                            + " is not a root";
            out.canon = ok ? "some-root" : "none"; // which root is unspecified
        } else {
            std::vector<RCP<const Integer>> roots;
            nthroot_mod_list(roots, IA, I(n), I(m));
            std::vector<u64> got;
            for (auto &r : roots)
                got.push_back(residue(*r, m)); // residues: negative
                                               // representatives are accepted
            std::sort(got.begin(), got.end());
            out.canon = vec_str(got);
            if (got != want)
                out.error = "nthroot_mod_list(" + std::to_string(a) + ", "
                            + std::to_string(n) + ", " + std::to_string(m) + ") = ["
                            + vec_str(got) + "], expected [" + vec_str(want) + "]";
        }
        return out;
    }
    if (fn == "powermod" || fn == "powermod_list") {
        // x**s == a**r (mod m), b = r / s
        long r = (long)o.geti("r", 1);
        u64 s = 1 + n % 4;
        RCP<const Number> b = Rational::from_two_ints(r, (long)s);
        // a**r mod m: negative r needs an inverse
        u64 am = a % m;
        bool defined = true;
        u64 base = am;
        if (r < 0) {
            if (gcd64(am, m) != 1)
                defined = false;
            else
                base = powmod(am, totient64(m) - 1, m);
        }
        if (!defined) {
            out.canon = "skipped";
            return out;
        }
        u64 target = powmod(base, (u64)(r < 0 ? -r : r), m);
        // reduce r/s the way Rational does
        long gg = (long)gcd64((u64)(r < 0 ? -r : r), s);
        u64 s_red = gg ? s / (u64)gg : s;
        long r_red = gg ? r / gg : r;
        u64 target_red = powmod(base, (u64)(r_red < 0 ? -r_red : r_red), m);
        (void)target;
        std::vector<u64> want = roots_bruteforce(target_red, s_red, m);
        if (fn == "powermod") {
            RCP<const Integer> pw;
            bool ok = powermod(outArg(pw), IA, b, I(m));
            if (ok != !want.empty())
                out.error = "powermod(" + std::to_string(a) + ", " + b->__str__() + ", "
                            + std::to_string(m) + ") says "
                            + (ok ? "exists" : "none") + ", brute force finds "
                            + std::to_string(want.size());
            else if (ok
                     && !std::binary_search(want.begin(), want.end(), residue(*pw, m)))
                out.error = "powermod(" + std::to_string(a) + ", " + b->__str__() + ", "
                            + std::to_string(m) + ") = " + pw->__str__()
                            + " does not satisfy x**s == a**r";
            out.canon = ok ? "some" : "none";
        } else {
            std::vector<RCP<const Integer>> pws;
            powermod_list(pws, IA, b, I(m));
            std::vector<u64> got;
            for (auto &x : pws)
                got.push_back(residue(*x, m));
            std::sort(got.begin(), got.end());
            got.erase(std::unique(got.begin(), got.end()), got.end());
            out.canon = vec_str(got);
            if (got != want)
                out.error = "powermod_list(" + std::to_string(a) + ", " + b->__str__()
                            + ", " + std::to_string(m) + ") = [" + vec_str(got)
                            + "], expected [" + vec_str(want) + "]";
        }
        return out;
    }
    if (do_pure(o, out))
        return out;
    out.canon = "unknown-fn";
    return out;
}

std::string call_key(const Json &o)
{
    return o.gets("fn") + "|" + std::to_string(o.geti("n")) + "|"
           + std::to_string(o.geti("m")) + "|" + std::to_string(o.geti("a")) + "|"
           + std::to_string(o.geti("r")) + "|" + std::to_string(o.geti("B")) + "|"
           + std::to_string(o.geti("x")) + "|" + std::to_string(o.geti("y")) + "|"
           + std::to_string(o.geti("z")) + "|" + std::to_string(o.geti("w")) + "|"
           + o.gets("N") + "|" + std::to_string(o.geti("k")) + "|" + std::to_string(o.geti("abig"));
}

void exec(Run &run)
{
    Sieve::set_clear(true);
    Sieve::set_sieve_size(32);
    Sieve::clear();
    std::string pol = run.plan.at("config").gets("policy", "system");
    simalloc::configure(pol == "lifo"     ? simalloc::LIFO
                        : pol == "fifo"   ? simalloc::FIFO
                        : pol == "random" ? simalloc::RANDOM
                                          : simalloc::SYSTEM,
                        (uint64_t)run.plan.at("config").geti("alloc_seed", 1), (size_t)1 << 30,
                        (size_t)4 << 30);
    struct Off {
        ~Off()
        {
            simalloc::deactivate();
        }
    } off;
    run.fault("alloc_policy_" + pol);
    std::unique_ptr<Sieve::iterator> held;
    size_t held_index = 0;
    std::map<std::string, std::string> first_result; // call key -> canon
    const Json &ops = run.plan.at("ops");
    unsigned judged = 0, perturbations = 0;
    bool clear_flag = true;
    for (size_t k = 0; k < ops.size() && !run.failed(); k++) {
        const Json &o = ops[k];
        std::string op = o.gets("op");
        run.steps++;
        if (op == "clear") {
            Sieve::clear();
            run.fault("sieve_clear");
            perturbations++;
            run.ev("clear");
        } else if (op == "set_clear") {
            clear_flag = o.at("v").as_bool();
            Sieve::set_clear(clear_flag);
            run.fault("sieve_set_clear");
            perturbations++;
            run.ev("set_clear");
        } else if (op == "set_size") {
            unsigned kk = (unsigned)o.geti("k", 32);
            if (kk == 0 || kk > 64)
                kk = 32;
            Sieve::set_sieve_size(kk);
            run.fault("sieve_set_size");
            perturbations++;
            run.ev("set_size " + std::to_string(kk));
        } else if (op == "it_new") {
            held.reset(new Sieve::iterator());
            held_index = 0;
            run.ev("it_new");
        } else if (op == "it_del") {
            if (held) {
                held.reset();
                run.fault("sieve_iterator_destroyed");
                perturbations++;
            }
            run.ev("it_del");
        } else if (op == "it_step") {
            if (held) {
                unsigned nn = (unsigned)o.geti("n", 1);
                unsigned last = 0;
                for (unsigned i = 0; i < nn && held_index < 300000; i++, held_index++)
                    last = held->next_prime();
                run.fault("sieve_iterator_stepped");
                perturbations++;
                run.ev("it_step -> " + std::to_string(last));
            }
        } else if (op == "gen") {
            std::vector<unsigned> v;
            Sieve::generate_primes(v, (unsigned)o.geti("limit", 100));
            run.fault("sieve_generate_primes");
            perturbations++;
            run.ev("gen " + std::to_string(v.size()));
        } else if (op == "call") {
            const Json &lists = o.at("seeds");
            std::string key = call_key(o);
            for (size_t s = 0; s < std::max<size_t>(1, lists.size()) && !run.failed();
                 s++) {
                std::vector<int> list;
                if (s < lists.size())
                    for (size_t i = 0; i < lists[s].size(); i++)
                        list.push_back((int)lists[s][i].as_int());
                simrand::set(list, 5000);
                if (s < lists.size() && s < o.at("force").size()) {
                    const Json &fz = o.at("force")[s];
                    if (fz.size() >= 3 && fz[0].s == "prefix") {
                        uint64_t L = (uint64_t)std::min<int64_t>(100, fz[1].as_int());
                        for (uint64_t i = 0; i < L; i++)
                            simrand::force(i, (int)(fz[2].as_int() % 5));
                    } else if (fz.size() >= 3 && fz[0].s == "at") {
                        for (size_t i = 1; i + 1 < fz.size(); i += 2)
                            simrand::force((uint64_t)(fz[i].as_int() % 100), (int)(fz[i + 1].as_int() % 5));
                    }
                }
                Outcome r;
                try {
                    r = do_call(o, run);
                } catch (const simrand::BudgetExceeded &) {
                    run.fail("no-progress:" + o.gets("fn"),
                             key + " did not finish within 5000 rand() draws");
                    break;
                } catch (const SymEngineException &e) {
                    r.canon = std::string("exception:") + e.what();
                }
                if (simrand::state().draws)
                    run.probe("random_numbers_drawn");
                if (simrand::state().forced_fired)
                    run.counters["fault.gmp_draw_forced"] += simrand::state().forced_fired;
                run.count("rand_draws", simrand::state().draws);
                run.fault("seed_list_replayed");
                if (s == 0)
                    run.ev("call " + key + " -> " + r.canon);
                if (!r.error.empty()) {
                    run.fail("wrong-result:" + o.gets("fn"), r.error);
                    break;
                }
                auto it = first_result.find(key);
                if (it == first_result.end())
                    first_result[key] = r.canon;
                else if (it->second != r.canon) {
                    bool rep = o.at("repeat").as_bool();
                    run.fail(std::string(rep && s == 0 ? "sieve-state-dependent:"
                                                       : "seed-dependent:")
                                 + o.gets("fn"),
                             key + " gave [" + r.canon + "] now and [" + it->second
                                 + "] before (different "
                                 + (rep && s == 0 ? "sieve state" : "rand() seeds") + ")");
                    break;
                }
                judged++;
                if (r.heavy)
                    break;
            }
            if (o.at("repeat").as_bool())
                run.probe("same_call_under_other_sieve_state");
        }
    }
    held.reset();
    simrand::set({}, 0);
    Sieve::set_clear(true);
    Sieve::set_sieve_size(32);
    Sieve::clear();
    run.nontrivial = judged >= 4 && perturbations >= 1;
}

} // namespace

int main(int argc, char **argv)
{
    Check c = {"C32", 32, gen, exec, nullptr};
    return harness_main(argc, argv, c);
}
