// Minimal JSON value, parser and writer for plans / replay files / results.
// Strings are byte-transparent: bytes < 0x20, 0x7f and >= 0x80 are written as
// \u00XX and read back as single bytes (latin-1 convention), so arbitrary
// byte strings survive C++ <-> Python round trips unchanged.
#pragma once
#include <cstdint>
#include <cstdio>
#include <cstdlib>
#include <cstring>
#include <string>
#include <vector>
#include <utility>
#include <stdexcept>
#include <cmath>

namespace sim
{

class Json
{
public:
    enum Type { Null, Bool, Int, Double, String, Array, Object };
    Type type = Null;
    bool b = false;
    int64_t i = 0;
    double d = 0;
    std::string s;
    std::vector<Json> a;
    std::vector<std::pair<std::string, Json>> o;

    Json() {}
    Json(bool v) : type(Bool), b(v) {}
    Json(int v) : type(Int), i(v) {}
    Json(unsigned v) : type(Int), i(v) {}
    Json(long v) : type(Int), i(v) {}
    Json(long long v) : type(Int), i(v) {}
    Json(unsigned long v) : type(Int), i((int64_t)v) {}
    Json(unsigned long long v) : type(Int), i((int64_t)v) {}
    Json(double v) : type(Double), d(v) {}
    Json(const char *v) : type(String), s(v) {}
    Json(const std::string &v) : type(String), s(v) {}

    static Json array()
    {
        Json j;
        j.type = Array;
        return j;
    }
    static Json object()
    {
        Json j;
        j.type = Object;
        return j;
    }

    bool is_null() const
    {
        return type == Null;
    }
    // object access
    Json &operator[](const std::string &k)
    {
        if (type == Null)
            type = Object;
        for (auto &p : o)
            if (p.first == k)
                return p.second;
        o.emplace_back(k, Json());
        return o.back().second;
    }
    const Json &at(const std::string &k) const
    {
        static const Json nul;
        for (auto &p : o)
            if (p.first == k)
                return p.second;
        return nul;
    }
    bool has(const std::string &k) const
    {
        for (auto &p : o)
            if (p.first == k)
                return true;
        return false;
    }
    void push(const Json &v)
    {
        if (type == Null)
            type = Array;
        a.push_back(v);
    }
    size_t size() const
    {
        return type == Array ? a.size() : o.size();
    }
    const Json &operator[](size_t k) const
    {
        return a[k];
    }
    int64_t as_int(int64_t def = 0) const
    {
        if (type == Int)
            return i;
        if (type == Double)
            return (int64_t)d;
        if (type == Bool)
            return b;
        return def;
    }
    double as_double(double def = 0) const
    {
        if (type == Double)
            return d;
        if (type == Int)
            return (double)i;
        return def;
    }
    bool as_bool(bool def = false) const
    {
        if (type == Bool)
            return b;
        if (type == Int)
            return i != 0;
        return def;
    }
    const std::string &as_str() const
    {
        return s;
    }
    int64_t geti(const std::string &k, int64_t def = 0) const
    {
        return at(k).as_int(def);
    }
    std::string gets(const std::string &k, const std::string &def = "") const
    {
        const Json &v = at(k);
        return v.type == String ? v.s : def;
    }

    static void write_string(std::string &out, const std::string &s)
    {
        out.push_back('"');
        for (unsigned char c : s) {
            if (c == '"')
                out += "\\\"";
            else if (c == '\\')
                out += "\\\\";
            else if (c == '\n')
                out += "\\n";
            else if (c == '\t')
                out += "\\t";
            else if (c < 0x20 || c >= 0x7f) {
                char buf[8];
                snprintf(buf, sizeof buf, "\\u%04x", c);
                out += buf;
            } else
                out.push_back((char)c);
        }
        out.push_back('"');
    }
    void dump_to(std::string &out) const
    {
        switch (type) {
            case Null:
                out += "null";
                break;
            case Bool:
                out += b ? "true" : "false";
                break;
            case Int:
                out += std::to_string(i);
                break;
            case Double: {
                if (std::isfinite(d)) {
                    char buf[40];
                    snprintf(buf, sizeof buf, "%.17g", d);
                    out += buf;
                    if (!strpbrk(buf, ".eE"))
                        out += ".0";
                } else
                    out += "null";
                break;
            }
            case String:
                write_string(out, s);
                break;
            case Array: {
                out.push_back('[');
                bool first = true;
                for (auto &v : a) {
                    if (!first)
                        out.push_back(',');
                    first = false;
                    v.dump_to(out);
                }
                out.push_back(']');
                break;
            }
            case Object: {
                out.push_back('{');
                bool first = true;
                for (auto &p : o) {
                    if (!first)
                        out.push_back(',');
                    first = false;
                    write_string(out, p.first);
                    out.push_back(':');
                    p.second.dump_to(out);
                }
                out.push_back('}');
                break;
            }
        }
    }
    std::string dump() const
    {
        std::string out;
        dump_to(out);
        return out;
    }

    // ---- parser ----
    struct P {
        const char *p, *e;
        void ws()
        {
            while (p < e && (*p == ' ' || *p == '\n' || *p == '\t' || *p == '\r'))
                ++p;
        }
        [[noreturn]] void fail(const char *m)
        {
            throw std::runtime_error(std::string("json: ") + m);
        }
        std::string str()
        {
            std::string r;
            if (*p != '"')
                fail("expected string");
            ++p;
            while (p < e && *p != '"') {
                if (*p == '\\') {
                    ++p;
                    if (p >= e)
                        fail("eof");
                    char c = *p++;
                    switch (c) {
                        case 'n':
                            r.push_back('\n');
                            break;
                        case 't':
                            r.push_back('\t');
                            break;
                        case 'r':
                            r.push_back('\r');
                            break;
                        case 'b':
                            r.push_back('\b');
                            break;
                        case 'f':
                            r.push_back('\f');
                            break;
                        case 'u': {
                            if (e - p < 4)
                                fail("bad \\u");
                            char buf[5] = {p[0], p[1], p[2], p[3], 0};
                            unsigned v = (unsigned)strtoul(buf, nullptr, 16);
                            p += 4;
                            if (v < 0x100)
                                r.push_back((char)v);
                            else { // utf-8 encode (not produced by us)
                                if (v < 0x800) {
                                    r.push_back((char)(0xc0 | (v >> 6)));
                                    r.push_back((char)(0x80 | (v & 0x3f)));
                                } else {
                                    r.push_back((char)(0xe0 | (v >> 12)));
                                    r.push_back(
                                        (char)(0x80 | ((v >> 6) & 0x3f)));
                                    r.push_back((char)(0x80 | (v & 0x3f)));
                                }
                            }
                            break;
                        }
                        default:
                            r.push_back(c);
                    }
                } else
                    r.push_back(*p++);
            }
            if (p >= e)
                fail("unterminated string");
            ++p;
            return r;
        }
        Json val()
        {
            ws();
            if (p >= e)
                fail("eof");
            Json j;
            if (*p == '{') {
                ++p;
                j.type = Object;
                ws();
                if (*p == '}') {
                    ++p;
                    return j;
                }
                for (;;) {
                    ws();
                    std::string k = str();
                    ws();
                    if (*p != ':')
                        fail("expected :");
                    ++p;
                    Json v = val();
                    j.o.emplace_back(std::move(k), std::move(v));
                    ws();
                    if (*p == ',') {
                        ++p;
                        continue;
                    }
                    if (*p == '}') {
                        ++p;
                        break;
                    }
                    fail("expected , or }");
                }
            } else if (*p == '[') {
                ++p;
                j.type = Array;
                ws();
                if (*p == ']') {
                    ++p;
                    return j;
                }
                for (;;) {
                    j.a.push_back(val());
                    ws();
                    if (*p == ',') {
                        ++p;
                        continue;
                    }
                    if (*p == ']') {
                        ++p;
                        break;
                    }
                    fail("expected , or ]");
                }
            } else if (*p == '"') {
                j.type = String;
                j.s = str();
            } else if (!strncmp(p, "true", 4)) {
                p += 4;
                j = Json(true);
            } else if (!strncmp(p, "false", 5)) {
                p += 5;
                j = Json(false);
            } else if (!strncmp(p, "null", 4)) {
                p += 4;
            } else {
                const char *q = p;
                bool isd = false;
                if (*q == '-' || *q == '+')
                    ++q;
                while (q < e
                       && ((*q >= '0' && *q <= '9') || *q == '.' || *q == 'e'
                           || *q == 'E' || *q == '-' || *q == '+')) {
                    if (*q == '.' || *q == 'e' || *q == 'E')
                        isd = true;
                    ++q;
                }
                if (q == p)
                    fail("unexpected character");
                std::string t(p, q);
                if (isd) {
                    j.type = Double;
                    j.d = strtod(t.c_str(), nullptr);
                } else {
                    j.type = Int;
                    j.i = strtoll(t.c_str(), nullptr, 10);
                }
                p = q;
            }
            return j;
        }
    };
    static Json parse(const std::string &text)
    {
        P ps{text.data(), text.data() + text.size()};
        Json j = ps.val();
        return j;
    }
};

} // namespace sim
