// C32 (randomised / sieve-dependent functions): number-theoretic results must
// not depend on the random choices made inside (std::rand() -> mp_randstate)
// nor on what earlier calls left in the process-global prime sieve.
//
// Simulation: a seeded interleaving of (a) calls of the functions that draw
// random numbers (Pollard p-1 / rho, Tonelli-Shanks through nthroot_mod*,
// powermod*) or consult the sieve (factor*, prime_factors*, primepi, totient,
// carmichael, multiplicative_order, primitive_root*, mobius, mertens,
// is_*_residue), each replayed under several rand() seed lists, with (b)
// perturbations of the global sieve (clear, set_clear, set_sieve_size, a
// long-lived iterator stepped between calls, generate_primes). Oracle: brute
// force from the definitions; identical results across seed lists and across
// sieve states wherever the definition determines the result.
#include "../sim/harness.h"
#include "../sim/rand_seam.h"
#include <symengine/ntheory.h>
#include <symengine/ntheory_funcs.h>
#include <symengine/prime_sieve.h>
#include <symengine/integer.h>
#include <symengine/rational.h>
#include <algorithm>
#include <memory>
#include <numeric>

using namespace sim;
using namespace SymEngine;

SIM_SANITIZER_DEFAULTS()

namespace
{
typedef unsigned long long u64;
typedef __int128 i128;

u64 mulmod(u64 a, u64 b, u64 m)
{
    return (u64)((unsigned __int128)a * b % m);
}
u64 powmod(u64 a, u64 e, u64 m)
{
    u64 r = 1 % m;
    a %= m;
    while (e) {
        if (e & 1)
            r = mulmod(r, a, m);
        a = mulmod(a, a, m);
        e >>= 1;
    }
    return r;
}
u64 gcd64(u64 a, u64 b)
{
    while (b) {
        u64 t = a % b;
        a = b;
        b = t;
    }
    return a;
}
std::vector<std::pair<u64, unsigned>> factorise(u64 n)
{
    std::vector<std::pair<u64, unsigned>> f;
    for (u64 p = 2; p * p <= n; p += (p == 2 ? 1 : 2)) {
        unsigned c = 0;
        while (n % p == 0) {
            n /= p;
            c++;
        }
        if (c)
            f.emplace_back(p, c);
    }
    if (n > 1)
        f.emplace_back(n, 1);
    return f;
}
bool is_prime64(u64 n)
{
    if (n < 2)
        return false;
    auto f = factorise(n);
    return f.size() == 1 && f[0].second == 1;
}
u64 totient64(u64 n)
{
    u64 r = n;
    for (auto &f : factorise(n))
        r = r / f.first * (f.first - 1);
    return r;
}
u64 order64(u64 a, u64 n) // 0 if gcd != 1
{
    if (gcd64(a % n, n) != 1)
        return 0;
    if (n == 1)
        return 1;
    u64 x = a % n, k = 1;
    while (x != 1) {
        x = mulmod(x, a, n);
        k++;
    }
    return k;
}
u64 carmichael64(u64 n)
{
    u64 l = 1;
    for (u64 a = 1; a < n; a++) {
        u64 o = order64(a, n);
        if (o)
            l = l / gcd64(l, o) * o;
    }
    return l;
}
std::vector<u64> roots_bruteforce(u64 a, u64 n, u64 m)
{
    std::vector<u64> r;
    u64 am = a % m;
    for (u64 x = 0; x < m; x++)
        if (powmod(x, n, m) == am)
            r.push_back(x);
    return r;
}

const unsigned SIZES[] = {1, 2, 3, 4, 8, 32};
const char *FUNCS[] = {"factor",         "factor_trial_division",
                       "factor_lehman",  "factor_pollard_pm1",
                       "factor_pollard_rho", "prime_factors",
                       "prime_factor_multiplicities", "primepi",
                       "totient",        "carmichael",
                       "multiplicative_order", "primitive_root",
                       "primitive_root_list", "mobius",
                       "mertens",        "is_quad_residue",
                       "is_nth_residue", "nthroot_mod",
                       "nthroot_mod_list", "powermod",
                       "powermod_list",  "primorial"};
const unsigned NFUNCS = sizeof FUNCS / sizeof FUNCS[0];

u64 pick_modulus(Rng &g)
{
    switch (g.below(8)) {
        case 0: { // prime
            u64 m;
            do
                m = 2 + g.below(4000);
            while (!is_prime64(m));
            return m;
        }
        case 1: { // prime power
            static const u64 pp[] = {4, 8, 9, 16, 25, 27, 32, 49, 64, 81, 121,
                                     125, 128, 169, 243, 256, 343, 512, 625,
                                     729, 1024, 2187, 2401, 3125};
            return pp[g.below(sizeof pp / sizeof pp[0])];
        }
        case 2: { // 2 * odd prime power, 4 * ...
            static const u64 pp[] = {6, 10, 14, 18, 50, 54, 98, 12, 20, 36, 100,
                                     242, 250, 338, 1458};
            return pp[g.below(sizeof pp / sizeof pp[0])];
        }
        default:
            return 2 + g.below(3000);
    }
}

Json gen(uint64_t seed, const std::string &tier)
{
    Rng g(seed);
    bool thorough = tier == "thorough";
    Json plan = Json::object();
    Json cfg = Json::object();
    unsigned nlists = 2 + (unsigned)g.below(thorough ? 5 : 3);
    cfg["nlists"] = nlists;
    plan["config"] = cfg;
    // swarm: which function families this run concentrates on
    std::vector<unsigned> fw(NFUNCS, 2);
    for (auto &x : fw)
        if (g.chance(1, 3))
            x = g.chance(1, 2) ? 0 : 8;
    unsigned tot = 0;
    for (auto x : fw)
        tot += x;
    if (!tot)
        fw[17] = 1;
    std::vector<unsigned> ow = {10, 2, 1, 2, 2, 1, 2}; // call, clear, set_clear, set_size, it_step, it_new/del, gen
    if (g.chance(1, 4))
        for (size_t i = 1; i < ow.size(); i++)
            ow[i] *= 3;
    unsigned nops = 8 + (unsigned)g.below(thorough ? 50 : 30);
    Json ops = Json::array();
    std::vector<size_t> call_idx;
    for (unsigned k = 0; k < nops; k++) {
        Json o = Json::object();
        switch (g.weighted(ow)) {
            case 0: {
                if (!call_idx.empty() && g.chance(1, 3)) {
                    // the same call again, now with a different sieve state
                    o = ops[call_idx[g.below(call_idx.size())]];
                    o["repeat"] = true;
                } else {
                    o["op"] = "call";
                    unsigned fi = (unsigned)g.weighted(fw);
                    o["fn"] = FUNCS[fi];
                    std::string fn = FUNCS[fi];
                    u64 n;
                    if (fn.compare(0, 6, "factor") == 0 || fn == "prime_factors"
                        || fn == "prime_factor_multiplicities") {
                        switch (g.below(5)) {
                            case 0:
                                n = 2 + g.below(2000);
                                break;
                            case 1: { // semiprime of two primes below 2^20
                                u64 a, b;
                                do
                                    a = 1000 + g.below(1u << 20);
                                while (!is_prime64(a));
                                do
                                    b = 1000 + g.below(1u << 20);
                                while (!is_prime64(b));
                                n = a * b;
                                break;
                            }
                            case 2: { // prime
                                do
                                    n = 2 + g.below(1000000);
                                while (!is_prime64(n));
                                break;
                            }
                            case 3: { // square of a prime / prime power
                                u64 a;
                                do
                                    a = 2 + g.below(3000);
                                while (!is_prime64(a));
                                n = a * a * (g.chance(1, 2) ? a : 1);
                                break;
                            }
                            default:
                                n = 2 + g.below(1000000);
                        }
                        o["n"] = (long long)n;
                        o["B"] = (unsigned)(3 + g.below(60));
                    } else if (fn == "primepi" || fn == "mertens" || fn == "primorial") {
                        // mertens(n) re-sieves n times (one iterator per
                        // mobius call): keep n small
                        o["n"] = (long long)(fn == "mertens" ? 1 + g.below(250)
                                                              : 1 + g.below(200000));
                    } else if (fn == "mobius" || fn == "totient") {
                        o["n"] = (long long)(1 + g.below(1000000));
                    } else {
                        u64 m = pick_modulus(g);
                        o["m"] = (long long)m;
                        o["a"] = (long long)g.below(g.chance(1, 8) ? 3 * m : m);
                        o["n"] = (long long)(1 + g.below(g.chance(1, 2) ? 4 : 12));
                        o["r"] = (long long)g.range(-3, 5);
                    }
                    Json lists = Json::array();
                    for (unsigned s = 0; s < nlists; s++) {
                        Json l = Json::array();
                        unsigned c = 1 + (unsigned)g.below(4);
                        for (unsigned i = 0; i < c; i++)
                            l.push(Json((int)(g.chance(1, 10)
                                                  ? (int)g.below(3)
                                                  : (int)(g.next() & 0x7fffffff))));
                        lists.push(l);
                    }
                    o["seeds"] = lists;
                    call_idx.push_back(ops.size());
                }
                break;
            }
            case 1:
                o["op"] = "clear";
                break;
            case 2:
                o["op"] = "set_clear";
                o["v"] = g.chance(1, 2);
                break;
            case 3:
                o["op"] = "set_size";
                o["k"] = SIZES[g.below(6)];
                break;
            case 4:
                o["op"] = "it_step";
                o["n"] = (unsigned)(1 + g.below(g.chance(1, 3) ? 5000 : 50));
                break;
            case 5:
                o["op"] = g.chance(1, 2) ? "it_new" : "it_del";
                break;
            default:
                o["op"] = "gen";
                o["limit"] = (unsigned)g.below(g.chance(1, 2) ? 300000 : 3000);
        }
        ops.push(o);
    }
    plan["ops"] = ops;
    return plan;
}

// ---------------------------------------------------------------------------
std::string vec_str(const std::vector<u64> &v)
{
    std::string s;
    for (size_t i = 0; i < v.size() && i < 40; i++)
        s += std::to_string(v[i]) + " ";
    if (v.size() > 40)
        s += "...(" + std::to_string(v.size()) + ")";
    return s;
}
u64 residue(const Integer &x, u64 m)
{
    integer_class r;
    mp_fdiv_r(r, x.as_integer_class(), integer_class((unsigned long)m));
    return mp_get_ui(r);
}

struct Outcome {
    std::string canon;   // canonical result string, must not vary
    std::string error;   // non-empty: the result contradicts the definition
};

// one call under the current sieve state and rand seed list
Outcome do_call(const Json &o, Run &run)
{
    Outcome out;
    std::string fn = o.gets("fn");
    u64 n = (u64)std::max<int64_t>(1, o.geti("n", 1));
    u64 m = (u64)std::max<int64_t>(2, o.geti("m", 7));
    u64 a = (u64)std::max<int64_t>(0, o.geti("a", 0));
    auto I = [](u64 v) { return integer(integer_class((unsigned long)v)); };
    if (fn.compare(0, 6, "factor") == 0) {
        RCP<const Integer> f;
        int ret;
        bool may_fail = false;
        if (fn == "factor")
            ret = factor(outArg(f), *I(n));
        else if (fn == "factor_trial_division")
            ret = factor_trial_division(outArg(f), *I(n));
        else if (fn == "factor_lehman") {
            if (n < 21)
                n += 21;
            ret = factor_lehman_method(outArg(f), *I(n));
        } else if (fn == "factor_pollard_pm1") {
            if (n < 4)
                n += 4;
            ret = factor_pollard_pm1_method(outArg(f), *I(n),
                                            (unsigned)o.geti("B", 10));
            may_fail = true;
        } else {
            if (n < 5)
                n += 5;
            ret = factor_pollard_rho_method(outArg(f), *I(n));
            may_fail = true;
        }
        bool composite = !is_prime64(n) && n > 3;
        if (ret != 0) {
            u64 fv = f.is_null() ? 0 : mp_get_ui(f->as_integer_class());
            if (f.is_null() || !f->is_positive() || fv <= 1 || fv >= n
                || n % fv != 0)
                out.error = fn + "(" + std::to_string(n) + ") reported the factor "
                            + (f.is_null() ? std::string("<null>") : f->__str__())
                            + ", which is not a non-trivial divisor";
            if (fn == "factor_trial_division" && out.error.empty()
                && fv != factorise(n)[0].first)
                out.error = "trial division of " + std::to_string(n) + " returned "
                            + std::to_string(fv) + ", not the smallest prime factor";
            // which divisor a randomised method finds may vary: only validity
            out.canon = may_fail ? "found-or-not" : "1:" + std::to_string(fv);
            if (fn == "factor" || fn == "factor_lehman")
                out.canon = "1"; // any valid factor (method-dependent)
        } else {
            if (!may_fail && composite && fn != "factor_lehman")
                out.error = fn + "(" + std::to_string(n)
                            + ") found no factor of a composite number";
            if (fn == "factor_lehman" && composite)
                run.probe("lehman_found_nothing_for_composite");
            out.canon = may_fail ? "found-or-not" : "0";
            if (may_fail)
                run.probe("pollard_gave_up");
        }
        return out;
    }
    if (fn == "prime_factors") {
        std::vector<RCP<const Integer>> pf;
        prime_factors(pf, *I(n));
        std::string want;
        for (auto &f : factorise(n))
            for (unsigned c = 0; c < f.second; c++)
                want += std::to_string(f.first) + " ";
        for (auto &p : pf)
            out.canon += p->__str__() + " ";
        if (out.canon != want)
            out.error = "prime_factors(" + std::to_string(n) + ") = [" + out.canon
                        + "], expected [" + want + "]";
        return out;
    }
    if (fn == "prime_factor_multiplicities") {
        map_integer_uint mm;
        prime_factor_multiplicities(mm, *I(n));
        std::string want;
        for (auto &f : factorise(n))
            want += std::to_string(f.first) + "^" + std::to_string(f.second) + " ";
        for (auto &p : mm)
            out.canon += p.first->__str__() + "^" + std::to_string(p.second) + " ";
        if (out.canon != want)
            out.error = "prime_factor_multiplicities(" + std::to_string(n) + ") = ["
                        + out.canon + "], expected [" + want + "]";
        return out;
    }
    if (fn == "primepi") {
        out.canon = primepi(I(n))->__str__();
        u64 c = 0;
        std::vector<bool> comp(n + 1, false);
        for (u64 i = 2; i <= n; i++) {
            if (!comp[i]) {
                c++;
                for (u64 j = i * i; j <= n; j += i)
                    comp[j] = true;
            }
        }
        if (out.canon != std::to_string(c))
            out.error = "primepi(" + std::to_string(n) + ") = " + out.canon
                        + ", expected " + std::to_string(c);
        return out;
    }
    if (fn == "primorial") {
        u64 nn = 1 + n % 60;
        out.canon = primorial(I(nn))->__str__();
        integer_class w(1);
        for (u64 p = 2; p <= nn; p++)
            if (is_prime64(p))
                w = w * integer_class((unsigned long)p);
        if (out.canon != integer(w)->__str__())
            out.error = "primorial(" + std::to_string(nn) + ") = " + out.canon;
        return out;
    }
    if (fn == "totient") {
        out.canon = totient(I(n))->__str__();
        if (out.canon != std::to_string(totient64(n)))
            out.error = "totient(" + std::to_string(n) + ") = " + out.canon
                        + ", expected " + std::to_string(totient64(n));
        return out;
    }
    if (fn == "carmichael") {
        out.canon = carmichael(I(m))->__str__();
        if (out.canon != std::to_string(carmichael64(m)))
            out.error = "carmichael(" + std::to_string(m) + ") = " + out.canon
                        + ", expected " + std::to_string(carmichael64(m));
        return out;
    }
    if (fn == "mobius") {
        int mu = mobius(*I(n));
        auto f = factorise(n);
        int w = (f.size() % 2) ? -1 : 1;
        for (auto &q : f)
            if (q.second > 1)
                w = 0;
        out.canon = std::to_string(mu);
        if (mu != w)
            out.error = "mobius(" + std::to_string(n) + ") = " + out.canon
                        + ", expected " + std::to_string(w);
        return out;
    }
    if (fn == "mertens") {
        long got = mertens((unsigned long)n);
        long w = 0;
        for (u64 k = 1; k <= n; k++) {
            auto f = factorise(k);
            int mu = (f.size() % 2) ? -1 : 1;
            for (auto &q : f)
                if (q.second > 1)
                    mu = 0;
            w += mu;
        }
        out.canon = std::to_string(got);
        if (got != w)
            out.error = "mertens(" + std::to_string(n) + ") = " + out.canon
                        + ", expected " + std::to_string(w);
        return out;
    }
    if (fn == "multiplicative_order") {
        RCP<const Integer> ord;
        bool ok = multiplicative_order(outArg(ord), I(a), I(m));
        u64 w = order64(a, m);
        out.canon = ok ? ord->__str__() : "none";
        std::string ws = w ? std::to_string(w) : "none";
        if (out.canon != ws)
            out.error = "multiplicative_order(" + std::to_string(a) + ", "
                        + std::to_string(m) + ") = " + out.canon + ", expected " + ws;
        return out;
    }
    if (fn == "primitive_root" || fn == "primitive_root_list") {
        u64 phi = totient64(m);
        std::vector<u64> want;
        for (u64 x = 1; x < m; x++)
            if (order64(x, m) == phi)
                want.push_back(x);
        if (fn == "primitive_root") {
            RCP<const Integer> gen;
            bool ok = primitive_root(outArg(gen), *I(m));
            if (ok != !want.empty())
                out.error = "primitive_root(" + std::to_string(m) + ") says "
                            + (ok ? "exists" : "none") + ", brute force says "
                            + (want.empty() ? "none" : "exists");
            else if (ok) {
                u64 gv = residue(*gen, m);
                if (!std::binary_search(want.begin(), want.end(), gv))
                    out.error = "primitive_root(" + std::to_string(m) + ") = "
                                + gen->__str__() + " is not a primitive root";
                else if (is_prime64(m) && gv != want[0])
                    out.error = "primitive_root(" + std::to_string(m) + ") = "
                                + gen->__str__() + " is not the smallest ("
                                + std::to_string(want[0]) + ")";
                out.canon = gen->__str__();
            } else
                out.canon = "none";
        } else {
            std::vector<RCP<const Integer>> roots;
            primitive_root_list(roots, *I(m));
            std::vector<u64> got;
            for (auto &r : roots)
                got.push_back(residue(*r, m));
            std::sort(got.begin(), got.end());
            out.canon = vec_str(got);
            if (got != want)
                out.error = "primitive_root_list(" + std::to_string(m) + ") = ["
                            + vec_str(got) + "], expected [" + vec_str(want) + "]";
        }
        return out;
    }
    if (fn == "is_quad_residue" || fn == "is_nth_residue") {
        u64 nn = fn == "is_quad_residue" ? 2 : n;
        bool got = fn == "is_quad_residue" ? is_quad_residue(*I(a), *I(m))
                                           : is_nth_residue(*I(a), *I(nn), *I(m));
        bool w = !roots_bruteforce(a, nn, m).empty();
        out.canon = got ? "1" : "0";
        if (got != w)
            out.error = fn + "(" + std::to_string(a) + ", " + std::to_string(nn) + ", "
                        + std::to_string(m) + ") = " + out.canon + ", brute force says "
                        + (w ? "1" : "0");
        return out;
    }
    if (fn == "nthroot_mod" || fn == "nthroot_mod_list") {
        std::vector<u64> want = roots_bruteforce(a, n, m);
        if (fn == "nthroot_mod") {
            RCP<const Integer> root;
            bool ok = nthroot_mod(outArg(root), I(a), I(n), I(m));
            if (ok != !want.empty())
                out.error = "nthroot_mod(" + std::to_string(a) + ", " + std::to_string(n)
                            + ", " + std::to_string(m) + ") says "
                            + (ok ? "a root exists" : "no root") + ", brute force finds "
                            + std::to_string(want.size()) + " roots";
            else if (ok
                     && !std::binary_search(want.begin(), want.end(),
                                            residue(*root, m)))
                out.error = "nthroot_mod(" + std::to_string(a) + ", " + std::to_string(n)
                            + ", " + std::to_string(m) + ") = " + root->__str__()
                            + " is not a root";
            out.canon = ok ? "some-root" : "none"; // which root is unspecified
        } else {
            std::vector<RCP<const Integer>> roots;
            nthroot_mod_list(roots, I(a), I(n), I(m));
            std::vector<u64> got;
            for (auto &r : roots)
                got.push_back(residue(*r, m)); // residues: negative
                                               // representatives are accepted
            std::sort(got.begin(), got.end());
            out.canon = vec_str(got);
            if (got != want)
                out.error = "nthroot_mod_list(" + std::to_string(a) + ", "
                            + std::to_string(n) + ", " + std::to_string(m) + ") = ["
                            + vec_str(got) + "], expected [" + vec_str(want) + "]";
        }
        return out;
    }
    if (fn == "powermod" || fn == "powermod_list") {
        // x**s == a**r (mod m), b = r / s
        long r = (long)o.geti("r", 1);
        u64 s = 1 + n % 4;
        RCP<const Number> b = Rational::from_two_ints(r, (long)s);
        // a**r mod m: negative r needs an inverse
        u64 am = a % m;
        bool defined = true;
        u64 base = am;
        if (r < 0) {
            if (gcd64(am, m) != 1)
                defined = false;
            else
                base = powmod(am, totient64(m) - 1, m);
        }
        if (!defined) {
            out.canon = "skipped";
            return out;
        }
        u64 target = powmod(base, (u64)(r < 0 ? -r : r), m);
        // reduce r/s the way Rational does
        long gg = (long)gcd64((u64)(r < 0 ? -r : r), s);
        u64 s_red = gg ? s / (u64)gg : s;
        long r_red = gg ? r / gg : r;
        u64 target_red = powmod(base, (u64)(r_red < 0 ? -r_red : r_red), m);
        (void)target;
        std::vector<u64> want = roots_bruteforce(target_red, s_red, m);
        if (fn == "powermod") {
            RCP<const Integer> pw;
            bool ok = powermod(outArg(pw), I(a), b, I(m));
            if (ok != !want.empty())
                out.error = "powermod(" + std::to_string(a) + ", " + b->__str__() + ", "
                            + std::to_string(m) + ") says "
                            + (ok ? "exists" : "none") + ", brute force finds "
                            + std::to_string(want.size());
            else if (ok
                     && !std::binary_search(want.begin(), want.end(), residue(*pw, m)))
                out.error = "powermod(" + std::to_string(a) + ", " + b->__str__() + ", "
                            + std::to_string(m) + ") = " + pw->__str__()
                            + " does not satisfy x**s == a**r";
            out.canon = ok ? "some" : "none";
        } else {
            std::vector<RCP<const Integer>> pws;
            powermod_list(pws, I(a), b, I(m));
            std::vector<u64> got;
            for (auto &x : pws)
                got.push_back(residue(*x, m));
            std::sort(got.begin(), got.end());
            got.erase(std::unique(got.begin(), got.end()), got.end());
            out.canon = vec_str(got);
            if (got != want)
                out.error = "powermod_list(" + std::to_string(a) + ", " + b->__str__()
                            + ", " + std::to_string(m) + ") = [" + vec_str(got)
                            + "], expected [" + vec_str(want) + "]";
        }
        return out;
    }
    out.canon = "unknown-fn";
    return out;
}

std::string call_key(const Json &o)
{
    return o.gets("fn") + "|" + std::to_string(o.geti("n")) + "|"
           + std::to_string(o.geti("m")) + "|" + std::to_string(o.geti("a")) + "|"
           + std::to_string(o.geti("r")) + "|" + std::to_string(o.geti("B"));
}

void exec(Run &run)
{
    Sieve::set_clear(true);
    Sieve::set_sieve_size(32);
    Sieve::clear();
    std::unique_ptr<Sieve::iterator> held;
    size_t held_index = 0;
    std::map<std::string, std::string> first_result; // call key -> canon
    const Json &ops = run.plan.at("ops");
    unsigned judged = 0, perturbations = 0;
    bool clear_flag = true;
    for (size_t k = 0; k < ops.size() && !run.failed(); k++) {
        const Json &o = ops[k];
        std::string op = o.gets("op");
        run.steps++;
        if (op == "clear") {
            Sieve::clear();
            run.fault("sieve_clear");
            perturbations++;
            run.ev("clear");
        } else if (op == "set_clear") {
            clear_flag = o.at("v").as_bool();
            Sieve::set_clear(clear_flag);
            run.fault("sieve_set_clear");
            perturbations++;
            run.ev("set_clear");
        } else if (op == "set_size") {
            unsigned kk = (unsigned)o.geti("k", 32);
            if (kk == 0 || kk > 64)
                kk = 32;
            Sieve::set_sieve_size(kk);
            run.fault("sieve_set_size");
            perturbations++;
            run.ev("set_size " + std::to_string(kk));
        } else if (op == "it_new") {
            held.reset(new Sieve::iterator());
            held_index = 0;
            run.ev("it_new");
        } else if (op == "it_del") {
            if (held) {
                held.reset();
                run.fault("sieve_iterator_destroyed");
                perturbations++;
            }
            run.ev("it_del");
        } else if (op == "it_step") {
            if (held) {
                unsigned nn = (unsigned)o.geti("n", 1);
                unsigned last = 0;
                for (unsigned i = 0; i < nn && held_index < 300000; i++, held_index++)
                    last = held->next_prime();
                run.fault("sieve_iterator_stepped");
                perturbations++;
                run.ev("it_step -> " + std::to_string(last));
            }
        } else if (op == "gen") {
            std::vector<unsigned> v;
            Sieve::generate_primes(v, (unsigned)o.geti("limit", 100));
            run.fault("sieve_generate_primes");
            perturbations++;
            run.ev("gen " + std::to_string(v.size()));
        } else if (op == "call") {
            const Json &lists = o.at("seeds");
            std::string key = call_key(o);
            for (size_t s = 0; s < std::max<size_t>(1, lists.size()) && !run.failed();
                 s++) {
                std::vector<int> list;
                if (s < lists.size())
                    for (size_t i = 0; i < lists[s].size(); i++)
                        list.push_back((int)lists[s][i].as_int());
                simrand::set(list, 5000);
                Outcome r;
                try {
                    r = do_call(o, run);
                } catch (const simrand::BudgetExceeded &) {
                    run.fail("no-progress:" + o.gets("fn"),
                             key + " did not finish within 5000 rand() draws");
                    break;
                } catch (const SymEngineException &e) {
                    r.canon = std::string("exception:") + e.what();
                }
                if (simrand::state().draws)
                    run.probe("random_numbers_drawn");
                run.count("rand_draws", simrand::state().draws);
                run.fault("seed_list_replayed");
                if (s == 0)
                    run.ev("call " + key + " -> " + r.canon);
                if (!r.error.empty()) {
                    run.fail("wrong-result:" + o.gets("fn"), r.error);
                    break;
                }
                auto it = first_result.find(key);
                if (it == first_result.end())
                    first_result[key] = r.canon;
                else if (it->second != r.canon) {
                    bool rep = o.at("repeat").as_bool();
                    run.fail(std::string(rep && s == 0 ? "sieve-state-dependent:"
                                                       : "seed-dependent:")
                                 + o.gets("fn"),
                             key + " gave [" + r.canon + "] now and [" + it->second
                                 + "] before (different "
                                 + (rep && s == 0 ? "sieve state" : "rand() seeds") + ")");
                    break;
                }
                judged++;
            }
            if (o.at("repeat").as_bool())
                run.probe("same_call_under_other_sieve_state");
        }
    }
    held.reset();
    simrand::set({}, 0);
    Sieve::set_clear(true);
    Sieve::set_sieve_size(32);
    Sieve::clear();
    run.nontrivial = judged >= 4 && perturbations >= 1;
}

} // namespace

int main(int argc, char **argv)
{
    Check c = {"C32", 32, gen, exec, nullptr};
    return harness_main(argc, argv, c);
}
